(* ml/C01/driver.ml — judge for property C01.
   O: the spec's checkers (check_mdp_solution, check_iter, check_cross, residual checks; Spec.v)
      evaluated in exact arithmetic on the implementation's own outputs;
   C: extracted model (vi_run, vi_run_g, pe_run, pe_run_g) against the implementation,
      bit-exact in the dyadic regime ("dy"), delta-close in the general regime ("ge"). *)
open Model
open Vio

let qi = q_of_int
let q_maxabs (l : q list) = List.fold_left (fun a x -> q_max a (q_abs x)) q_zero l
let flat m = List.concat m
let nat_eq a b = int_of_nat a = int_of_nat b
let nats_eq a b = List.length a = List.length b && List.for_all2 nat_eq a b
let rec take n l = if n = 0 then [] else match l with [] -> failwith "take" | x :: t -> x :: take (n - 1) t
let rec drop n l = if n = 0 then l else match l with [] -> failwith "drop" | _ :: t -> drop (n - 1) t
let rec chunks k l = if l = [] then [] else take k l :: chunks k (drop k l)

(* reads S*A*S numbers into t[s][a][s1] *)
let read_t3 c s a = chunks a (chunks s (List.init (s * a * s) (fun _ -> next_q c)))
let read_qtable r = let rows = next_int r in let cols = next_int r in
  let l = List.init (rows * cols) (fun _ -> next_q r) in
  if cols = 0 then List.init rows (fun _ -> []) else chunks cols l

type regime = Dy | Ge

(* comparison tolerance of the regime *)
let slack reg scale = match reg with Dy -> q_zero | Ge -> q_mul (q_of_ints 1 1000000000) (q_add q_one scale)
let num_eq reg scale a b = match reg with Dy -> q_eq a b | Ge -> q_le (q_abs (q_sub a b)) (slack reg scale)
let list_eq reg scale a b = List.length a = List.length b && List.for_all2 (num_eq reg scale) a b

(* second-best margin of a Q row (model side) *)
let margin (row : q list) =
  let m = maxl row in
  let rec go seen acc = function
    | [] -> acc
    | x :: t -> if q_eq x m && not seen then go true acc t
                else go seen (match acc with None -> Some (q_sub m x) | Some d -> Some (if q_lt (q_sub m x) d then q_sub m x else d)) t in
  go false None row

let acts_agree reg scale (mq : q list list) (ma : nat list) (ia : nat list) =
  List.length ma = List.length ia &&
  List.for_all2 (fun (row, a) b ->
      nat_eq a b ||
      (match reg with Dy -> false
                    | Ge -> (match margin row with
                             | None -> false
                             | Some d -> q_le d (q_mul (q_of_ints 1 10000000) (q_add q_one scale)))))
    (List.combine mq ma) ia

type vi_block = { var : q; v : q list; acts : nat list; qf : q list list }
let read_vi_block r = let var = next_q r in let v = next_qs r in let acts = next_nats r in let qf = read_qtable r in
  { var; v; acts; qf }
type pe_block = { pvar : q; pv : q list; pq : q list list }
let read_pe_block r = let pvar = next_q r in let pv = next_qs r in let pq = read_qtable r in { pvar; pv; pq }

let scale_of (m : mdp) (v : q list) = q_add (q_maxabs v) (q_maxabs (flat m.r))

(* memoised reference values iterT_red m n start (check_iter m n start v d = closeb d v (iterT_red m n start)) *)
let memo (f : int -> q list) : int -> q list =
  let tbl = Hashtbl.create 4 in
  fun n -> match Hashtbl.find_opt tbl n with Some v -> v | None -> let v = f n in Hashtbl.add tbl n v; v
let start_of (m : mdp) (v0 : q list) =
  let s = int_of_nat m.nS in if List.length v0 = s then v0 else List.init s (fun _ -> q_zero)
let ref_vi (m : mdp) (v0 : q list) = let st = start_of m v0 in memo (fun n -> iterT_red m (nat_of_int n) st)
let ref_pe (m : mdp) pol (v0 : q list) = let st = start_of m v0 in memo (fun n -> iterTpi_red m pol (nat_of_int n) st)

(* ---------- O: value-iteration answer [b] for MDP [m] ---------- *)
let oracle_vi site reg (m : mdp) (refv : int -> q list) h tol (v0 : q list) (b : vi_block) =
  let start = start_of m v0 in
  let sc = scale_of m b.v in
  let sl = slack reg sc in
  let uset = use_tolerance tol in
  if h = 0 then begin
    if not (list_eq reg sc b.v start) then oracle_fail "vi_exact" site "horizon 0 must return the start values"
  end else begin
    if not uset then begin
      (* tolerance (treated as) zero: exactly the h-step DP values *)
      if not (closeb sl b.v (refv h)) then
        oracle_fail "vi_exact" site ("values differ from h-step dynamic programming: impl " ^ str_qs b.v ^ " dp " ^ str_qs (refv h));
      if not (q_eq b.var q_zero) then oracle_fail "vi_exact" site "variation must be reported as 0";
      (* Q is the look-ahead of V_{h-1}: within gamma*|V_h - V_{h-1}| of the look-ahead of V_h *)
      let d = q_add (q_mul m.gam (dist (refv h) (refv (h - 1)))) sl in
      let e = q_add (dist b.v (t_op m b.v)) sl in
      if not (check_mdp_solution m b.v b.qf b.acts e d) then
        oracle_fail "vi_exact" site "returned (V,Q,actions) are not consistent: Q row maxima / first maximiser / look-ahead"
    end else begin
      (* tolerance in use: Bellman residual <= gamma * variation (vi_residual) *)
      let e = q_add (q_mul m.gam b.var) sl in
      if q_lt b.var q_zero then oracle_fail "vi_residual" site "negative variation";
      if not (residual_leb m b.v e) then
        oracle_fail "vi_residual" site ("Bellman residual " ^ string_of_q (dist b.v (t_op m b.v)) ^ " exceeds gamma*variation " ^ string_of_q e);
      if not (check_mdp_solution m b.v b.qf b.acts e e) then
        oracle_fail "vi_residual" site "returned (V,Q,actions) are not consistent: Q row maxima / first maximiser / look-ahead"
    end
  end

(* ---------- C: model block vs implementation block ---------- *)
let corr_vi site reg (sc : q) (mo : ((q * q list) * nat list) * q list list) (b : vi_block) =
  let (((mvar, mv), macts), mq) = mo in
  if not (num_eq reg sc mvar b.var) then disagree "vi_run.variation" site ("impl " ^ string_of_q b.var ^ " model " ^ string_of_q mvar);
  if not (list_eq reg sc mv b.v) then disagree "vi_run.values" site ("impl " ^ str_qs b.v ^ " model " ^ str_qs mv);
  if not (list_eq reg sc (flat mq) (flat b.qf)) || List.length mq <> List.length b.qf then
    disagree "vi_run.qfunction" site ("impl " ^ str_qs (flat b.qf) ^ " model " ^ str_qs (flat mq));
  if not (acts_agree reg sc mq macts b.acts) then disagree "vi_run.actions" site ("impl " ^ str_nats b.acts ^ " model " ^ str_nats macts)

let corr_pe site reg (sc : q) (mo : (q * q list) * q list list) (b : pe_block) =
  let ((mvar, mv), mq) = mo in
  if not (num_eq reg sc mvar b.pvar) then disagree "pe_run.variation" site ("impl " ^ string_of_q b.pvar ^ " model " ^ string_of_q mvar);
  if not (list_eq reg sc mv b.pv) then disagree "pe_run.values" site ("impl " ^ str_qs b.pv ^ " model " ^ str_qs mv);
  if not (list_eq reg sc (flat mq) (flat b.pq)) || List.length mq <> List.length b.pq then
    disagree "pe_run.qfunction" site ("impl " ^ str_qs (flat b.pq) ^ " model " ^ str_qs (flat mq))

let oracle_pe site reg (m : mdp) pol (refv : int -> q list) h tol (v0 : q list) (b : pe_block) =
  let start = start_of m v0 in
  let sc = scale_of m b.pv in
  let sl = slack reg sc in
  if h = 0 then begin
    if not (list_eq reg sc b.pv start) then oracle_fail "pe_exact" site "horizon 0 must return the start values"
  end else if not (use_tolerance tol) then begin
    if not (closeb sl b.pv (refv h)) then
      oracle_fail "pe_exact" site ("values differ from the h-step value of the policy: impl " ^ str_qs b.pv ^ " dp " ^ str_qs (refv h));
    if not (q_eq b.pvar q_zero) then oracle_fail "pe_exact" site "variation must be reported as 0"
  end else begin
    let e = q_add (q_mul m.gam b.pvar) sl in
    if not (residual_pi_leb m pol b.pv e) then
      oracle_fail "pe_residual" site "policy-evaluation residual exceeds gamma*variation"
  end

(* does the case contain probabilities that SparseModel drops (0 < p <= 1e-6)? *)
let has_tiny (t : q list list list) (r : mat) =
  List.exists (fun x -> q_lt q_zero x && q_le x (q_of_ints 1 1000000)) (flat (flat t)) ||
  List.exists (fun x -> not (q_eq x q_zero) && q_le (q_abs x) (q_of_ints 1 1000000)) (flat r)

let mk_mdp s a (p : q list list list) (r : q list list) gamma : mdp =
  { nS = nat_of_int s; nA = nat_of_int a; p = p; r = r; gam = gamma }

(* ---------- block groups shared by the fresh-solver cases and the solver-reuse sequences ---------- *)
(* four ValueIteration answers (Model, SparseModel, UserModel, QueryOnly) for the tables (t, rw) *)
let judge_vi4 sfx reg (g : gmodel) tiny rmax h tol v0 (r : cursor) =
  let dense = dense_of_g g in
  let sparse = sparse_of_g g in
  let n = nat_of_int h in
  let bd = read_vi_block r in
  let sp = next_int r = 1 in
  let bs = if sp then read_vi_block r else bd in
  let bu = read_vi_block r in let bq = read_vi_block r in
  (* the sparse constructor validates the stored table: model's prediction vs the code (C) *)
  if sp <> sparse_accepts g then disagree "sparse_accepts" ("SparseModel::SparseModel" ^ sfx) ("impl " ^ string_of_bool sp ^ " model " ^ string_of_bool (sparse_accepts g));
  (* O first, on the implementation's outputs; all four representations against the same MDP
     (the sparse one against the sparsified MDP when entries are dropped) *)
  let rd = ref_vi dense v0 in
  let rsp = if tiny then ref_vi sparse v0 else rd in
  oracle_vi ("ValueIteration<Model>" ^ sfx) reg dense rd h tol v0 bd;
  if sp then oracle_vi ("ValueIteration<SparseModel>" ^ sfx) reg (if tiny then sparse else dense) rsp h tol v0 bs;
  oracle_vi ("ValueIteration<UserModel>" ^ sfx) reg dense rd h tol v0 bu;
  oracle_vi ("ValueIteration<QueryOnly>" ^ sfx) reg dense rd h tol v0 bq;
  (* repr_independent on the implementation: same answers from all representations *)
  let sc = scale_of dense bd.v in
  (* sparse_error_term on the implementation: entries were dropped, the constructor accepted the table:
     |V_sparse - V_dense| <= epsS*(1 + rmax + gamma*B)/(1-gamma), B = max |dp_sparse k|, k < h *)
  if sp && tiny && not (use_tolerance tol) && h > 0 && start_of dense v0 = List.map (fun _ -> q_zero) (start_of dense v0) then begin
    let eps = q_of_ints 1 1000000 in
    let b = List.fold_left (fun acc k -> q_max acc (q_maxabs (rsp k))) q_zero (List.init h (fun k -> k)) in
    let eta = q_mul eps (q_add q_one (q_add rmax (q_mul dense.gam b))) in
    let bound = q_add (vio_qdiv eta (q_sub q_one dense.gam)) (slack reg sc) in
    if not (closeb bound bs.v bd.v) then
      oracle_fail "sparse_error_term" ("ValueIteration<SparseModel>" ^ sfx) ("sparse and dense values differ by more than " ^ string_of_q bound)
  end;
  if sp && not tiny then begin
    if not (list_eq reg sc bd.v bs.v && list_eq reg sc (flat bd.qf) (flat bs.qf)) then oracle_fail "repr_independent" ("ValueIteration<SparseModel>" ^ sfx) "sparse and dense answers differ"
  end;
  if not (list_eq reg sc bd.v bu.v && list_eq reg sc (flat bd.qf) (flat bu.qf)) then oracle_fail "repr_independent" ("ValueIteration<UserModel>" ^ sfx) "user-defined and dense answers differ";
  if not (list_eq reg sc bd.v bq.v && list_eq reg sc (flat bd.qf) (flat bq.qf)) then oracle_fail "repr_independent" ("ValueIteration<QueryOnly>" ^ sfx) "query-only and dense answers differ";
  (* C *)
  corr_vi ("ValueIteration<Model>" ^ sfx) reg sc (vi_run dense n tol v0) bd;
  if sp then corr_vi ("ValueIteration<SparseModel>" ^ sfx) reg sc (vi_run sparse n tol v0) bs;
  corr_vi ("ValueIteration<UserModel>" ^ sfx) reg sc (vi_run_g g n tol v0) bu;
  corr_vi ("ValueIteration<QueryOnly>" ^ sfx) reg sc (vi_run_g (g_of_mdp dense) n tol v0) bq

let judge_pe4 sfx reg (g : gmodel) tiny pol h tol v0 (r : cursor) =
  let dense = dense_of_g g in
  let sparse = sparse_of_g g in
  let n = nat_of_int h in
  let bd = read_pe_block r in
  let sp = next_int r = 1 in
  let bs = if sp then read_pe_block r else bd in
  let bu = read_pe_block r in let bq = read_pe_block r in
  if sp <> sparse_accepts g then disagree "sparse_accepts" ("SparseModel::SparseModel" ^ sfx) ("impl " ^ string_of_bool sp ^ " model " ^ string_of_bool (sparse_accepts g));
  let rd = ref_pe dense pol v0 in
  let rsp = if tiny then ref_pe sparse pol v0 else rd in
  oracle_pe ("PolicyEvaluation<Model>" ^ sfx) reg dense pol rd h tol v0 bd;
  if sp then oracle_pe ("PolicyEvaluation<SparseModel>" ^ sfx) reg (if tiny then sparse else dense) pol rsp h tol v0 bs;
  oracle_pe ("PolicyEvaluation<UserModel>" ^ sfx) reg dense pol rd h tol v0 bu;
  oracle_pe ("PolicyEvaluation<QueryOnly>" ^ sfx) reg dense pol rd h tol v0 bq;
  let sc = scale_of dense bd.pv in
  if not (list_eq reg sc bd.pv bu.pv) then oracle_fail "repr_independent" ("PolicyEvaluation<UserModel>" ^ sfx) "user-defined and dense answers differ";
  corr_pe ("PolicyEvaluation<Model>" ^ sfx) reg sc (pe_run dense pol n tol v0) bd;
  if sp then corr_pe ("PolicyEvaluation<SparseModel>" ^ sfx) reg sc (pe_run sparse pol n tol v0) bs;
  corr_pe ("PolicyEvaluation<UserModel>" ^ sfx) reg sc (pe_run_g g pol n tol v0) bu;
  corr_pe ("PolicyEvaluation<QueryOnly>" ^ sfx) reg sc (pe_run_g (g_of_mdp dense) pol n tol v0) bq

(* PolicyIteration (Model, UserModel) with a short tolerance-free evaluation: C only *)
let judge_pi2 sfx reg (g : gmodel) h tol bps (r : cursor) : int =
  let m = dense_of_g g in
  let q1 = read_qtable r in let q2 = read_qtable r in
  let fuel = nat_of_int (300 + 4 * int_of_nat g.gS) in
  let cmp site mo iq =
    match mo with
    | None -> disagree "pi_run.fuel" site "model out of fuel (300 evaluations) while the implementation returned"
    | Some (iters, mq) ->
      (* bit-exact only while every intermediate value fits a double: 12 bits + bps per sweep *)
      let exact = reg = Dy && 12 + int_of_nat iters * h * bps <= 52 in
      let reg' = if exact then Dy else Ge in
      let sc = q_add (q_maxabs (flat mq)) (q_maxabs (flat m.r)) in
      if not (list_eq reg' sc (flat mq) (flat iq)) || List.length mq <> List.length iq then
        disagree "pi_run.qfunction" site ("impl " ^ str_qs (flat iq) ^ " model " ^ str_qs (flat mq));
      int_of_nat iters in
  let i1 = cmp ("PolicyIteration<Model>" ^ sfx) (pi_run m (nat_of_int h) tol fuel) q1 in
  let _ = cmp ("PolicyIteration<UserModel>" ^ sfx) (pi_run_g g (nat_of_int h) tol fuel) q2 in
  i1

(* LinearProgramming (Model, UserModel): residual, consistency, LP rows (O); post-processing (C) *)
let read_lp_block r = let _prec = next_q r in let v = next_qs r in let a = next_nats r in let qf = read_qtable r in (v, a, qf)
let oracle_lp site (m : mdp) (v, acts, qf) =
  let sc = scale_of m v in
  let e_lp = q_mul (q_of_ints 1 100000) (q_add q_one sc) in
  if not (residual_leb m v e_lp) then
    oracle_fail "lp_opt_is_fixpoint" site ("Bellman residual of the LP values " ^ string_of_q (dist v (t_op m v)) ^ " exceeds " ^ string_of_q e_lp);
  if not (check_mdp_solution m v qf acts e_lp e_lp) then
    oracle_fail "lp_opt_is_fixpoint" site "returned (V,Q,actions) are not consistent";
  List.iter (fun (coef, rhs) ->
      if q_lt (q_add (dot coef v) e_lp) rhs then
        oracle_fail "lp_feasible_iff_superharmonic" site "returned values violate a constraint of the LP") (lp_problem_of_mdp m).lp_rows;
  e_lp
let corr_lp site sc ((_, macts), mq) ia iq =
  if not (list_eq Ge sc (flat mq) (flat iq)) || List.length mq <> List.length iq then
    disagree "lp_post.qfunction" site ("impl " ^ str_qs (flat iq) ^ " model " ^ str_qs (flat mq));
  if not (acts_agree Ge sc mq macts ia) then disagree "lp_post.actions" site ("impl " ^ str_nats ia ^ " model " ^ str_nats macts)

(* ---------- mutation sequences: one model object mutated through its setters under long-lived solvers ---------- *)
let judge_mut reg rs s a gamma0 (c : cursor) (r : cursor) : bool * string =
  let k = next_int c in
  let h = next_int c in
  let tol = next_q c in
  let hpi = next_int c in
  let bps = next_int c in
  let v0 = next_qs c in
  let t0 = read_t3 c s a in let r0 = read_t3 c s a in
  let g0 = g_of_tables (nat_of_int s) (nat_of_int a) t0 r0 gamma0 in
  let md = ref (dense_of_g g0) in
  let ms = ref (sparse_of_g g0) in
  let n = nat_of_int h in
  let fuel = nat_of_int (300 + 4 * s) in
  let call i =
    let sfx = "@mut" ^ string_of_int i in
    let pol = chunks a (List.init (s * a) (fun _ -> next_q c)) in
    let bpd = read_pe_block r in let bps_ = read_pe_block r in
    let bvd = read_vi_block r in let bvs = read_vi_block r in
    let qd = read_qtable r in let qs = read_qtable r in
    let ld = read_lp_block r in let ls = read_lp_block r in
    let one_pe site (m : mdp) b =
      oracle_pe site reg m pol (ref_pe m pol v0) h tol v0 b;
      corr_pe site reg (scale_of m b.pv) (pe_run m pol n tol v0) b in
    let one_vi site (m : mdp) b =
      oracle_vi site reg m (ref_vi m v0) h tol v0 b;
      corr_vi site reg (scale_of m b.v) (vi_run m n tol v0) b in
    let one_pi site (m : mdp) iq =
      match pi_run m (nat_of_int hpi) q_zero fuel with
      | None -> disagree "pi_run.fuel" site "model out of fuel while the implementation returned"
      | Some (iters, mq) ->
        let exact = reg = Dy && 12 + int_of_nat iters * hpi * bps <= 52 in
        let sc = q_add (q_maxabs (flat mq)) (q_maxabs (flat m.r)) in
        if not (list_eq (if exact then Dy else Ge) sc (flat mq) (flat iq)) || List.length mq <> List.length iq then
          disagree "pi_run.qfunction" site ("impl " ^ str_qs (flat iq) ^ " model " ^ str_qs (flat mq)) in
    let one_lp site (m : mdp) (v, acts, qf) =
      let _ = oracle_lp site m (v, acts, qf) in
      corr_lp site (scale_of m v) (lp_post m v) acts qf in
    (* O and C per call, against the tables the object holds at this call *)
    one_pe ("PolicyEvaluation<Model>" ^ sfx) !md bpd;
    one_pe ("PolicyEvaluation<SparseModel>" ^ sfx) !ms bps_;
    one_vi ("ValueIteration<Model>" ^ sfx) !md bvd;
    one_vi ("ValueIteration<SparseModel>" ^ sfx) !ms bvs;
    one_pi ("PolicyIteration<Model>" ^ sfx) !md qd;
    one_pi ("PolicyIteration<SparseModel>" ^ sfx) !ms qs;
    one_lp ("LinearProgramming<Model>" ^ sfx) !md ld;
    one_lp ("LinearProgramming<SparseModel>" ^ sfx) !ms ls in
  call 0;
  let opsall = ref "" in
  for i = 1 to k do
    let ops = next c in
    opsall := !opsall ^ ops;
    String.iter (fun ch ->
        match ch with
        | 'T' -> let t = read_t3 c s a in md := obj_set_t !md t; ms := sobj_set_t !ms t
        | 'R' -> let rw = read_t3 c s a in md := obj_set_r !md rw; ms := sobj_set_r !ms rw
        | 'D' -> let d = next_q c in md := obj_set_d !md d; ms := obj_set_d !ms d
        | _ -> failwith "mut: unknown op") ops;
    call i
  done;
  (h > 0 && k > 0, "mut." ^ rs ^ "." ^ (if String.contains !opsall 'R' then "R" else "") ^ (if String.contains !opsall 'T' then "T" else "") ^ (if String.contains !opsall 'D' then "D" else ""))

(* ---------- long corridors (oracle only: Howard PI needs about n improvement rounds) ---------- *)
let judge_chain s a gamma (c : cursor) (r : cursor) : bool * string =
  let tol = next_q c in
  let h = next_int c in
  let pay = Array.of_list (next_qs c) in
  let n = s - 1 in
  if a <> 2 || Array.length pay + 1 <> n then failwith "chain: bad shape";
  let unit_row j = List.init s (fun i -> if i = j then q_one else q_zero) in
  let p0 = List.init s (fun i -> if i + 1 < n then unit_row n else unit_row i) in
  let p1 = List.init s (fun i -> if i + 1 < n then unit_row (i + 1) else unit_row i) in
  let rw = List.init s (fun i -> if i + 1 < n then [pay.(i); q_zero] else if i = n - 1 then [q_one; q_one] else [q_zero; q_zero]) in
  let m = mk_mdp s a [p0; p1] rw gamma in
  let bvi = read_vi_block r in
  let qpi = read_qtable r in let qpis = read_qtable r in
  let lpb = read_lp_block r in
  let sc = scale_of m bvi.v in
  let sl = slack Ge sc in
  oracle_vi "ValueIteration<Model>[chain]" Ge m (fun _ -> failwith "chain: no exact reference") h tol [] bvi;
  if q_lt tol bvi.var then oracle_fail "vi_residual" "ValueIteration<Model>[chain]" "did not converge within the horizon given by the generator";
  let e_vi = q_add (q_mul m.gam bvi.var) sl in
  let chk_pi site qf =
    let v = List.map maxl qf in
    let acts = List.map (fun row -> fst (argmax row)) qf in
    let tie = q_mul (q_of_ints 1 10000000000) (q_add q_one sc) in
    let e_pi = q_add (q_add (q_mul m.gam tol) sl) tie in
    if not (check_mdp_solution m v qf acts e_pi e_pi) then begin
      if not (residual_leb m v e_pi) then
        oracle_fail "pi_fixpoint" site ("Bellman residual of max_a Q " ^ string_of_q (dist v (t_op m v)) ^ " exceeds gamma*tol " ^ string_of_q e_pi);
      oracle_fail "pi_fixpoint" site "returned Q is not consistent with its own greedy values"
    end;
    if not (check_cross m bvi.v v e_vi e_pi) then
      oracle_fail "approx_fixpoints_close" site "VI and PI values further apart than (e1+e2)/(1-gamma)" in
  chk_pi "PolicyIteration<Model>[chain]" qpi;
  chk_pi "PolicyIteration<SparseModel>[chain]" qpis;
  let e_lp = oracle_lp "LinearProgramming<Model>[chain]" m lpb in
  let (lv, _, _) = lpb in
  if not (check_cross m bvi.v lv e_vi e_lp) then
    oracle_fail "approx_fixpoints_close" "LinearProgramming<Model>[chain]" "VI and LP values further apart than (e1+e2)/(1-gamma)";
  (true, "chain")

let judge_seq reg rs (c : cursor) (r : cursor) : bool * string =
    (* one solver object of each kind reused over k models and all representations; every answer is
       judged exactly as a fresh solve of the same MDP *)
    let k = next_int c in
    let h = next_int c in
    let tol = next_q c in
    let hpi = next_int c in
    let v0 = next_qs c in
    let shapes = ref [] in
    for i = 1 to k do
      let s = next_int c in let a = next_int c in
      let gamma = next_q c in
      let bps = next_int c in
      let t = read_t3 c s a in let rw = read_t3 c s a in
      let pol1 = chunks a (List.init (s * a) (fun _ -> next_q c)) in
      let pol2 = chunks a (List.init (s * a) (fun _ -> next_q c)) in
      let g = g_of_tables (nat_of_int s) (nat_of_int a) t rw gamma in
      let m = dense_of_g g in
      let tiny = has_tiny t m.r in
      if not (wf_mdpb m) && reg = Dy then failwith "generator produced an ill-formed dyadic MDP";
      let sfx = "@call" ^ string_of_int i in
      judge_vi4 sfx reg g tiny (q_maxabs (flat (flat rw))) h tol v0 r;
      judge_pe4 sfx reg g tiny pol1 h tol v0 r;
      judge_pe4 (sfx ^ "b") reg g tiny pol2 h tol v0 r;
      let _ = judge_pi2 sfx reg g hpi q_zero bps r in
      let l1 = read_lp_block r in let l2 = read_lp_block r in
      let _ = oracle_lp ("LinearProgramming<Model>" ^ sfx) m l1 in
      let _ = oracle_lp ("LinearProgramming<UserModel>" ^ sfx) m l2 in
      let (v1, a1, qf1) = l1 in let (v2, a2, qf2) = l2 in
      corr_lp ("LinearProgramming<Model>" ^ sfx) (scale_of m v1) (lp_post m v1) a1 qf1;
      corr_lp ("LinearProgramming<UserModel>" ^ sfx) (scale_of m v2) (lp_post_g g v2) a2 qf2;
      if next_int r = 1 then begin
        let l3 = read_lp_block r in
        let ms = if tiny then sparse_of_g g else m in
        let _ = oracle_lp ("LinearProgramming<SparseModel>" ^ sfx) ms l3 in
        let (v3, a3, qf3) = l3 in
        corr_lp ("LinearProgramming<SparseModel>" ^ sfx) (scale_of m v3) (lp_post (sparse_of_g g) v3) a3 qf3
      end;
      shapes := (s, a) :: !shapes
    done;
    let same = (match !shapes with x :: rest -> List.exists (fun y -> y = x) rest | [] -> false) in
    (k > 1 && h > 0, "seq." ^ rs ^ (if same then ".sameshape" else ".othershape"))

let judge _id (c : cursor) (r : cursor) : bool * string =
  let kind = next c in
  let reg = (match next c with "dy" -> Dy | "ge" -> Ge | x -> failwith ("regime " ^ x)) in
  let rs = (match reg with Dy -> "dy" | Ge -> "ge") in
  if kind = "seq" then judge_seq reg rs c r else
  let s = next_int c in let a = next_int c in
  let gamma = next_q c in
  if kind = "mut" then judge_mut reg rs s a gamma c r else
  if kind = "chain" then judge_chain s a gamma c r else
  match kind with
  | "vi" | "pe" ->
    let h = next_int c in
    let tol = next_q c in
    let t = read_t3 c s a in let rw = read_t3 c s a in
    let v0 = next_qs c in
    let g = g_of_tables (nat_of_int s) (nat_of_int a) t rw gamma in
    let dense = dense_of_g g in
    let tiny = has_tiny t dense.r in
    if not (wf_mdpb dense) && reg = Dy then failwith "generator produced an ill-formed dyadic MDP";
    let uset = use_tolerance tol in
    let nontrivial = h > 0 && s > 1 in
    let tag = kind ^ "." ^ rs ^ (if uset then ".tol" else ".exact") ^ (if tiny then ".tiny" else "") in
    if kind = "vi" then begin
      judge_vi4 "" reg g tiny (q_maxabs (flat (flat rw))) h tol v0 r;
      (nontrivial, tag)
    end else begin
      let pol = chunks a (List.init (s * a) (fun _ -> next_q c)) in
      judge_pe4 "" reg g tiny pol h tol v0 r;
      (nontrivial, tag)
    end
  | "solve" ->
    let tol = next_q c in
    let h = next_int c in
    let t = read_t3 c s a in let rw = read_t3 c s a in
    let g = g_of_tables (nat_of_int s) (nat_of_int a) t rw gamma in
    let m = dense_of_g g in
    let bvi = read_vi_block r in
    let qpi = read_qtable r in
    let (lpv, lpa, lpq) = read_lp_block r in
    let (lpv2, lpa2, lpq2) = read_lp_block r in
    let qpi2 = read_qtable r in
    let sc = scale_of m bvi.v in
    let sl = slack Ge sc in
    (* VI with tolerance *)
    oracle_vi "ValueIteration<Model>" Ge m (ref_vi m []) h tol [] bvi;
    if q_lt tol bvi.var then oracle_fail "vi_residual" "ValueIteration<Model>" "did not converge within the horizon given by the generator";
    let e_vi = q_add (q_mul m.gam bvi.var) sl in
    (* LP: lp_solve is accurate to about 1e-6 relative; residual, consistency and the LP rows
       re-evaluated exactly on the implementation's values, then the cross-check with VI *)
    let chk_lp site (v, acts, qf) =
      let e_lp = oracle_lp site m (v, acts, qf) in
      if not (check_cross m bvi.v v e_vi e_lp) then
        oracle_fail "approx_fixpoints_close" site "VI and LP values further apart than (e1+e2)/(1-gamma)" in
    chk_lp "LinearProgramming<Model>" (lpv, lpa, lpq);
    chk_lp "LinearProgramming<UserModel>" (lpv2, lpa2, lpq2);
    (* PI: V := row maxima of the returned Q, actions := first maximisers *)
    let chk_pi site qf =
      let v = List.map maxl qf in
      let acts = List.map (fun row -> fst (argmax row)) qf in
      let tie = q_mul (q_of_ints 1 10000000000) (q_add q_one sc) in    (* checkEqualGeneral ties *)
      let e_pi = q_add (q_add (q_mul m.gam tol) sl) tie in
      if not (residual_leb m v e_pi) then
        oracle_fail "pi_fixpoint" site ("Bellman residual of max_a Q " ^ string_of_q (dist v (t_op m v)) ^ " exceeds gamma*tol " ^ string_of_q e_pi);
      if not (check_mdp_solution m v qf acts e_pi e_pi) then
        oracle_fail "pi_fixpoint" site "returned Q is not consistent with its own greedy values";
      if not (check_cross m bvi.v v e_vi e_pi) then
        oracle_fail "approx_fixpoints_close" site "VI and PI values further apart than (e1+e2)/(1-gamma)" in
    chk_pi "PolicyIteration<Model>" qpi;
    chk_pi "PolicyIteration<UserModel>" qpi2;
    (* C: post-processing of the LP values (Q-table and greedy actions) against the model *)
    corr_lp "LinearProgramming<Model>" sc (lp_post m lpv) lpa lpq;
    corr_lp "LinearProgramming<UserModel>" sc (lp_post_g g lpv2) lpa2 lpq2;
    (* the same on MDP::SparseModel (generator keeps clear of the dropped band: same MDP) *)
    let sp = next_int r = 1 in
    if sp <> sparse_accepts g then disagree "sparse_accepts" "SparseModel::SparseModel" "model/impl differ";
    if sp then begin
      let (lpv3, lpa3, lpq3) = read_lp_block r in
      let qpi3 = read_qtable r in
      chk_lp "LinearProgramming<SparseModel>" (lpv3, lpa3, lpq3);
      chk_pi "PolicyIteration<SparseModel>" qpi3;
      corr_lp "LinearProgramming<SparseModel>" sc (lp_post (sparse_of_g g) lpv3) lpa3 lpq3
    end;
    (s > 1 && a > 1, "solve")
  | "via" ->
    (* start ValueFunction with a wrong-size action vector: the answer must not depend on it *)
    let h = next_int c in
    let tol = next_q c in
    let t = read_t3 c s a in let rw = read_t3 c s a in
    let v0 = next_qs c in
    let _nacts = next_int c in
    let g = g_of_tables (nat_of_int s) (nat_of_int a) t rw gamma in
    let m = dense_of_g g in
    let b = read_vi_block r in
    let site = "ValueIteration::operator()[start.actions.size!=S]" in
    if List.length b.acts <> s then oracle_fail "vi_exact" site "returned action vector does not have one entry per state";
    oracle_vi site reg m (ref_vi m v0) h tol v0 b;
    corr_vi site reg (scale_of m b.v) (vi_run m (nat_of_int h) tol v0) b;
    (h > 0 && s > 1, "via." ^ rs)
  | "pi" ->
    (* C only: with a horizon-limited evaluation PolicyIteration promises no residual bound *)
    let h = next_int c in
    let tol = next_q c in
    let bps = next_int c in
    let t = read_t3 c s a in let rw = read_t3 c s a in
    let g = g_of_tables (nat_of_int s) (nat_of_int a) t rw gamma in
    let i1 = judge_pi2 "" reg g h tol bps r in
    (i1 > 1 && s > 1, "pi." ^ rs)
  | "learn" ->
    let h = next_int c in
    let tol = next_q c in
    let p_sas = chunks a (chunks s (List.init (s * a * s) (fun _ -> next_q r))) in   (* [s][a][s1] *)
    let rsa = chunks a (List.init (s * a) (fun _ -> next_q r)) in
    (* P indexed action, state, state' *)
    let p = List.init a (fun ai -> List.init s (fun si -> List.nth (List.nth p_sas si) ai)) in
    let m = mk_mdp s a p rsa gamma in
    let b = read_vi_block r in
    oracle_vi "ValueIteration<MaximumLikelihoodModel>" Ge m (ref_vi m []) h tol [] b;
    corr_vi "ValueIteration<MaximumLikelihoodModel>" Ge (scale_of m b.v) (vi_run m (nat_of_int h) tol []) b;
    (h > 0 && s > 1, "learn")
  | k -> failwith ("unknown case kind " ^ k)

let () = main_loop judge
