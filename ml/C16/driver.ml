(* ml/C16/driver.ml — judge for property C16 (reproducible, independent of unrelated history).
   O (oracle, on the implementation's outputs only): the harness executed the same call under test
     several times after different unrelated histories; all runs must be identical token for token
     (doubles are hex floats, so this is bitwise equality).
   C (correspondence with the extracted Coq model):
     - prog : the seeds handed out by Seeder::getSeed / the engines of constructed objects are those of
              [seeder_run] instantiated with the reference std::mt19937 outputs the harness reports;
     - fg   : complete dumps of all graphs equal those of [grun_pool] (empty and stale-filled pool),
              and the pool sizes agree;
     - amdp : the fresh discretizer equals [amdp_disc] with the exact base-2 logarithm on beliefs whose
              entries are powers of two (skipped when the bucket ratio is an exact integer);
     - carrier : a hidden-state carrier found in the source must be in the committed inventory. *)
open Model
open Vio

let n_of_int (x : int) : n = vio_z_to_N (z_of_int x)
let int_of_n (x : n) : int = int_of_z (vio_z_of_N x)
let sprintf = Printf.sprintf

let read_list c (f : cursor -> 'a) (k : int) : 'a list =
  let rec go k acc = if k <= 0 then List.rev acc else go (k - 1) (f c :: acc) in go k []

let read_runs (ic : cursor) : string list list =
  let nr = next_int ic in
  if nr < 0 || nr > 16 then failwith "bad run count";
  read_list ic (fun c -> let nt = next_int c in if nt < 0 || nt > 10_000_000 then failwith "bad token count"; read_list c next nt) nr

let check_abnormal (ic : cursor) (site : string) : unit =
  if not (at_end ic) then begin
    match peek ic with
    | "CRASH" | "TIMEOUT" | "SANITIZER" -> oracle_fail "no_crash" site (String.concat " " (rest ic))
    | "THROW" -> oracle_fail "no_throw" site (String.concat " " (rest ic))
    | _ -> ()
  end

let first_diff (a : string list) (b : string list) : string =
  let rec go i a b = match a, b with
    | [], [] -> "equal"
    | x :: a', y :: b' -> if x = y then go (i + 1) a' b' else sprintf "token %d: %s vs %s" i x y
    | [], _ | _, [] -> sprintf "different lengths (common prefix %d)" i in
  go 0 a b

let check_equal (clause : string) (site : string) (runs : string list list) : unit =
  match runs with
  | [] -> disagree "impl_output_missing" site "no runs"
  | r0 :: others ->
    List.iteri (fun k r ->
        if r <> r0 then
          oracle_fail clause site (sprintf "run %d (different unrelated history) differs from run 0 at %s" (k + 1) (first_diff r0 r)))
      others;
    (* an exception thrown identically in every run is deterministic behaviour; reported by the tag only *)
    ()

(* skip an MDP / POMDP in the case cursor, returning its sizes *)
let skip_mdp cc = let s = next_int cc in let a = next_int cc in ignore (next cc);
  for _ = 1 to a * s * s + s * a do ignore (next cc) done; (s, a)
let skip_pomdp cc = let s = next_int cc in let a = next_int cc in let o = next_int cc in ignore (next cc);
  for _ = 1 to a * s * s + s * a + a * s * o do ignore (next cc) done; (s, a, o)

(* ------------------------------------------------------------------ prog *)
type pop_ = G | Q | R of int | N of int | D of int
let engines_of_type t = if t = 3 then 2 else 1
let draw_tokens_of_type t = match t with 0 -> 2 | 1 -> 1 | 2 -> 2 | 3 -> 3 | 4 -> 1 | _ -> failwith "type"

let judge_prog ?(clause = "seeder_deterministic") ?(site = "Seeder::getSeed") ?(tag = "prog") cc ic =
  let pre1 = next_int cc in let pre2 = next_int cc in let root = next_int cc in
  let nops = next_int cc in
  let ops = read_list cc (fun c -> match next c with
      | "G" -> G | "Q" -> Q | "R" -> R (next_int c) | "N" -> N (next_int c) | "D" -> D (next_int c)
      | t -> failwith ("bad op " ^ t)) nops in
  check_abnormal ic site;
  let runs = read_runs ic in
  (* O *)
  check_equal clause site runs;
  (* C *)
  expect ic "X";
  let ns = next_int ic in
  let table = read_list ic (fun c -> let s = next_int c in let k = next_int c in (s, Array.of_list (read_list c next_int k))) ns in
  let draws_of r = try List.assoc r table with Not_found -> failwith "root seed missing from the reference table" in
  let seed_of (r : n) : n list = List.map n_of_int (Array.to_list (draws_of (int_of_n r))) in
  let next_draw (st : n list) = match st with x :: t -> (t, x) | [] -> failwith "reference engine table exhausted" in
  let sops = SSetRoot (n_of_int root) ::
             List.concat_map (function
                 | G -> [SGet] | Q -> [SGetRoot] | R s -> [SSetRoot (n_of_int s)]
                 | N t -> List.init (engines_of_type t) (fun _ -> SGet) | D _ -> []) ops in
  let (_, mout) = seeder_run seed_of next_draw { s_root = N0; s_gen = [] } sops in
  let mout = ref (List.map int_of_n mout) in
  let take_model () = match !mout with x :: t -> mout := t; x | [] -> failwith "model output exhausted" in
  let impl = ref (List.hd runs) in
  let take_impl () = match !impl with x :: t -> impl := t; x | [] -> disagree "C16.seeder_model" site "implementation output too short" in
  let cur = ref root in
  let objs = ref [] in
  List.iteri (fun k op ->
      match op with
      | G | Q ->
        let m = take_model () in let i = take_impl () in
        if i <> string_of_int m then disagree "C16.seeder_model" site (sprintf "op %d: implementation %s, model %d" k i m)
      | R s -> cur := s
      | N t ->
        for _ = 1 to engines_of_type t do
          let m = take_model () in let i = take_impl () in
          (match int_of_string_opt i with
           | None -> disagree "C16.seeder_model" "object_engine_seed" (sprintf "op %d: engine of the new object is not std::mt19937(any of the first outputs of std::mt19937(root))" k)
           | Some idx ->
             let tb = draws_of !cur in
             if idx < 0 || idx >= Array.length tb || tb.(idx) <> m then
               disagree "C16.seeder_model" "object_engine_seed" (sprintf "op %d: engine seeded with reference draw #%d, model expects seed %d" k idx m))
        done;
        objs := !objs @ [t]
      | D j ->
        if j < List.length !objs then
          for _ = 1 to draw_tokens_of_type (List.nth !objs j) do ignore (take_impl ()) done)
    ops;
  if !impl <> [] then disagree "C16.seeder_model" site "implementation output too long";
  let nt = pre1 <> pre2 && List.exists (function G | N _ -> true | _ -> false) ops in
  (nt, tag)

(* ------------------------------------------------------------------ fg *)
let nats_of_ints l = List.map nat_of_int l
let dump_graph (g : nat list fgraph) : string list =
  let nl l = string_of_int (List.length l) :: List.map (fun x -> string_of_int (int_of_nat x)) l in
  [string_of_int (List.length g.fg_factors); string_of_int (int_of_nat g.fg_nactive)]
  @ List.concat_map (fun f -> nl f.fn_vars @ nl f.fn_data) g.fg_factors
  @ [string_of_int (List.length g.fg_vars)]
  @ List.concat_map (fun v ->
      [(if v.vn_active then "1" else "0"); string_of_int (List.length v.vn_factors)]
      @ List.concat_map nl v.vn_factors @ nl v.vn_neigh) g.fg_vars

let judge_fg cc ic =
  let site = "FactorGraph" in
  let sizes = next_ints cc in
  let njunk = next_int cc in let nops = next_int cc in
  let gops = List.concat (read_list cc (fun c ->
      let k = next c in let i = nat_of_int (next_int c) in
      match k with
      | "g" -> let vars = nats_of_ints (next_ints c) in [GGet (i, vars)]
      | "s" -> let vars = nats_of_ints (next_ints c) in let d = next_int c in
        [GGet (i, vars); GSet (i, vars, nats_of_ints [d; d + 1])]
      | "e" -> [GErase (i, nat_of_int (next_int c))]
      | "r" -> [GReset (i, nat_of_int (next_int c))]
      | "c" -> [GCopy (i, nat_of_int (next_int c))]
      | t -> failwith ("bad fg op " ^ t)) nops) in
  check_abnormal ic site;
  let runs = read_runs ic in
  check_equal "pool_recycle_independent" site runs;
  expect ic "X";
  let pool_before = next_int ic in let pool_after = next_int ic in
  let graphs = List.map (fun n -> fg_new (nat_of_int n)) sizes in
  (* the stale nodes the harness' prefix leaves in the pool: erase pushes to the front *)
  let junk = List.rev (List.init njunk (fun i -> { fn_data = nats_of_ints [777 + i; 888; 999]; fn_vars = nats_of_ints [i; i + 1] })) in
  let (_, g0) = grun_pool [] ([], graphs) gops in
  let (p1, g1) = grun_pool [] (junk, graphs) gops in
  let d0 = List.concat_map dump_graph g0 and d1 = List.concat_map dump_graph g1 in
  (match runs with
   | [r0; r1] ->
     if r0 <> d0 then disagree "C16.fg_model" site ("empty pool: implementation vs model at " ^ first_diff r0 d0);
     if r1 <> d1 then disagree "C16.fg_model" site ("stale pool: implementation vs model at " ^ first_diff r1 d1)
   | _ -> disagree "C16.fg_model" site "expected two runs");
  if pool_before <> njunk then disagree "C16.fg_model" "FactorGraph::erase" (sprintf "pool holds %d nodes after erasing %d factors" pool_before njunk);
  if pool_after <> List.length p1 then disagree "C16.fg_model" site (sprintf "pool size after the program: implementation %d, model %d" pool_after (List.length p1));
  let stale_left = List.length (List.filter (fun f -> match f.fn_data with x :: _ -> int_of_nat x >= 777 | [] -> false) p1) in
  (njunk > 0 && stale_left < njunk, "fg")

(* ------------------------------------------------------------------ amdp *)
let judge_amdp cc ic =
  let site = "AMDP::makeDiscretizer" in
  let s1 = next_int cc in let b1 = next_int cc in let s2 = next_int cc in let b2 = next_int cc in
  let nb = next_int cc in
  let bs = read_list cc (fun c -> read_list c next_q s2) nb in
  check_abnormal ic site;
  let runs = read_runs ic in
  check_equal "amdp_discretizer_independent" site runs;
  (* C: the fresh discretizer against the model, where the exact base-2 logarithm applies *)
  let inv_s = vio_qdiv q_one (q_of_int s2) in
  let compared = ref 0 in
  (match runs with
   | r0 :: _ ->
     List.iteri (fun k b ->
         let usable = lg2_defined inv_s && List.for_all (fun x -> q_eq x q_zero || lg2_defined x) b in
         if usable then begin
           let (_, entropy) = amdp_scan lg2 b b O O q_zero in
           let step = amdp_step lg2 (nat_of_int s2) (nat_of_int b2) in
           let ratio = vio_qred (vio_qdiv entropy step) in
           let integral = (match vio_qden ratio with XH -> true | _ -> false) in
           if not (integral && q_lt ratio (q_of_int b2)) then begin
             incr compared;
             let m = int_of_nat (amdp_disc lg2 (nat_of_int s2) (nat_of_int b2) b) in
             let i = List.nth r0 k in
             if i <> string_of_int m then
               disagree "C16.amdp_model" site (sprintf "belief %d: fresh discretizer gives %s, model %d" k i m)
           end
         end) bs
   | [] -> ());
  ((s1, b1) <> (s2, b2), if !compared > 0 then "amdp_modelled" else "amdp")

(* ------------------------------------------------------------------ generic reuse scenarios *)
let judge_generic clause site nt tag ic =
  check_abnormal ic site;
  let runs = read_runs ic in
  (match runs with
   | [["CHILD_TIMEOUT"]] -> (false, tag ^ "_not_converging")        (* termination of the solver is not this property *)
   | [[t]] when String.length t > 13 && String.sub t 0 13 = "CHILD_SIGNAL_" -> oracle_fail "no_crash" site t
   | [t] :: _ when String.length t >= 6 && String.sub t 0 6 = "THROW_" -> check_equal clause site runs; (false, tag ^ "_throws")
   | _ -> check_equal clause site runs; (nt, tag))

let judge (_id : int) (cc : cursor) (ic : cursor) : bool * string =
  let kind = next cc in
  match kind with
  | "prog" -> judge_prog cc ic
  | "thread" -> judge_prog ~clause:"program_deterministic" ~site:"Seeder::instance_(threads)" ~tag:"thread" cc ic
  | "amdpkeep" ->
    ignore (next cc); ignore (next cc);
    let b1 = next_int cc in let b2 = next_int cc in
    judge_generic "returned_value_independent" "AMDP::makeDiscretizer" (b1 <> b2) "amdpkeep" ic
  | "fg" -> judge_fg cc ic
  | "amdp" -> judge_amdp cc ic
  | "amdpm" ->
    ignore (next cc); ignore (next cc);
    let b1 = next_int cc in let (s1, _, _) = skip_pomdp cc in
    let b2 = next_int cc in let (s2, _, _) = skip_pomdp cc in
    judge_generic "amdp_discretizer_independent" "AMDP::discretizeDense" ((s1, b1) <> (s2, b2)) "amdpm" ic
  | "vi" | "pi" ->
    ignore (next cc); ignore (next cc); let repr = next cc in
    let d1 = skip_mdp cc in let d2 = skip_mdp cc in
    if kind = "vi" then judge_generic "vi_reuse_independent" "MDP::ValueIteration::operator()" (d1 <> d2) ("vi_" ^ repr) ic
    else judge_generic "solver_reuse_independent" "MDP::PolicyIteration::operator()" (d1 <> d2) ("pi_" ^ repr) ic
  | "pomdp" ->
    let alg = next cc in ignore (next cc);
    let d1 = skip_pomdp cc in let d2 = skip_pomdp cc in
    let site = (match alg with "ip" -> "POMDP::IncrementalPruning::operator()" | "wit" -> "POMDP::Witness::operator()"
                               | "ls" -> "POMDP::LinearSupport::operator()" | _ -> failwith "alg") in
    judge_generic "solver_reuse_independent" site (d1 <> d2) ("pomdp_" ^ alg) ic
  | "sarsop" ->
    ignore (next cc); ignore (next cc);
    let d1 = skip_pomdp cc in ignore (next_list cc next); let d2 = skip_pomdp cc in
    let site = "POMDP::SARSOP::operator()" in
    check_abnormal ic site;
    let runs = read_runs ic in
    (match runs with
     | [["CHILD_TIMEOUT"]] -> (false, "sarsop_not_converging")
     | [[t]] when String.length t > 13 && String.sub t 0 13 = "CHILD_SIGNAL_" -> oracle_fail "no_crash" site t
     | _ ->
       check_equal "solver_reuse_independent" site runs;
       expect ic "X";
       let moved = next ic in let init = next ic in
       (d1 <> d2 && moved <> init, if moved <> init then "sarsop_delta_moved" else "sarsop"))
  | "gapmin" ->
    ignore (next cc); ignore (next cc);
    let d1 = skip_pomdp cc in ignore (next_list cc next); let d2 = skip_pomdp cc in
    let site = "POMDP::GapMin::operator()" in
    check_abnormal ic site;
    let runs = read_runs ic in
    (match runs with
     | [["CHILD_TIMEOUT"]] -> (false, "gapmin_not_converging")
     | [[t]] when String.length t > 13 && String.sub t 0 13 = "CHILD_SIGNAL_" -> oracle_fail "no_crash" site t
     | _ ->
       check_equal "solver_reuse_independent" site runs;
       expect ic "X";
       let moved = next ic in let init = next ic in
       (d1 <> d2 && moved <> init, if moved <> init then "gapmin_tolerance_moved" else "gapmin"))
  | "heap" ->
    let alg = next cc in ignore (next cc); ignore (next cc);
    let d1 = skip_pomdp cc in let d2 = skip_pomdp cc in
    let site = (match alg with
        | "ls" -> "POMDP::LinearSupport::operator()" | "ip" -> "POMDP::IncrementalPruning::operator()"
        | "wit" -> "POMDP::Witness::operator()" | "pbvi" -> "POMDP::PBVI::operator()" | "perseus" -> "POMDP::PERSEUS::operator()"
        | "qmdp" -> "POMDP::QMDP::operator()" | "fib" -> "POMDP::FastInformedBound::operator()"
        | "blind" -> "POMDP::BlindStrategies::operator()" | _ -> failwith "alg") in
    judge_generic "heap_history_independent" site (d1 <> d2) ("heap_" ^ alg) ic
  | "pbreuse" ->
    let alg = next cc in ignore (next cc);
    let d1 = skip_pomdp cc in let d2 = skip_pomdp cc in
    judge_generic "solver_reuse_independent" (if alg = "pbvi" then "POMDP::PBVI::operator()" else "POMDP::PERSEUS::operator()") (d1 <> d2) ("pbreuse_" ^ alg) ic
  | "seeded" ->
    let alg = next cc in let p1 = next_int cc in let p2 = next_int cc in
    judge_generic "program_deterministic" alg (p1 <> p2) ("seeded_" ^ alg) ic
  | "ve" -> judge_generic "pool_recycle_independent" "VariableElimination+FactorGraph" true "ve" ic
  | "rils" -> judge_generic "solver_reuse_independent" "ReusingIterativeLocalSearch::operator()" true "rils" ic
  | "carrier" ->
    let file = next cc in let line = next cc in let name = next cc in let ckind = next cc in
    let status = next cc in let cls = next cc in
    (match status with
     | "covered" -> (true, "carrier_" ^ cls)
     | "stale" -> (false, "carrier_no_longer_in_source")
     | _ ->
       disagree "hidden_state_inventory" (file ^ ":" ^ name)
         (sprintf "%s `%s` at %s:%s can carry state between calls but is not in the committed inventory (props/C16.py COVERED): no theorem or scenario covers it" ckind name file line))
  | k -> failwith ("unknown case kind " ^ k)

let () = main_loop judge
