(* ml/C03/driver.ml — C03: approximate POMDP solvers return sound bounds.
   O: exact expectimax brackets (EV_r extracted from Coq) on the implementation's outputs:
        lower bounds:  value(b) <= EV n b + g^n Rmax/(1-g) + d      for every n <= N
        upper bounds:  EV n b + g^n Rmin/(1-g) - d <= value(b)      for every n <= N
      finite-horizon solvers against EV of the matching horizon; QMDP >= FIB; lb <= ub;
      certificate checkers (supersol_okb) on the implementation's tables.
   C: the Coq models of BlindStrategies / FastInformedBound / QMDP against the implementation. *)
open Model
open Vio
open Pomdpio

let qi = q_of_int
let range a b = List.init (max 0 (b - a)) (fun i -> a + i)
let nat = nat_of_int

(* ---- reading the implementation's numbers: a NaN/inf is an oracle failure, not a crash *)
let fin site (r : cursor) : q =
  match xnum_of_token (next r) with
  | Fin x -> x
  | _ -> oracle_fail "finite_output" site "implementation returned NaN or infinity"

let bounded_count site (r : cursor) : int =
  let n = next_int r in
  if n < 0 || n > 100000 then oracle_fail "finite_output" site "implausible element count" else n

let read_vlist site s (r : cursor) : (int * q list) list =
  let n = bounded_count site r in
  take_n n (fun () -> let a = next_int r in let v = take_n s (fun () -> fin site r) in (a, v))
(* full entries (action, links, values) as Coq ventry records *)
let read_vlist_full site s (r : cursor) : ventry list =
  let n = bounded_count site r in
  take_n n (fun () ->
      let a = next_int r in
      let nl = bounded_count site r in
      let links = take_n nl (fun () -> let i = next_int r in if i < 0 || i > 1000000 then oracle_fail "finite_output" site "implausible link" else nat_of_int i) in
      let v = take_n s (fun () -> fin site r) in
      { vals = v; act = nat_of_int (max 0 a); obs = links })
let strip (l : ventry list) : (int * q list) list = List.map (fun e -> (int_of_nat e.act, e.vals)) l
let read_mat site (r : cursor) : q list list =
  let rows = bounded_count site r in let cols = bounded_count site r in
  take_n rows (fun () -> take_n cols (fun () -> fin site r))
let read_ubv site s (r : cursor) : (q list * q) list =
  let n = bounded_count site r in
  take_n n (fun () -> let b = take_n s (fun () -> fin site r) in let v = fin site r in (b, v))

let check_status site (r : cursor) =
  match peek r with
  | "THROW" | "CRASH" | "TIMEOUT" | "SANITIZER" ->
    oracle_fail "solver_returns" site ("implementation did not return: " ^ String.concat " " (rest r))
  | _ -> ()

(* ---- tolerances *)
let tiny = q_of_ints 1 1000000000
let slack ?(rel = tiny) (x : q) : q = q_mul rel (q_add q_one (q_abs x))
let le_tol ?(rel = tiny) a b = q_le a (q_add b (slack ~rel (q_max (q_abs a) (q_abs b))))
let close_tol ?(rel = tiny) a b = le_tol ~rel a b && le_tol ~rel b a

(* ---- expectimax brackets, cached per belief *)
type ctx = { m : pomdp; s : int; a : int; o : int; rmax : q; rmin : q; nmax : int;
             cache : (string, q array) Hashtbl.t }

let mk_ctx (m : pomdp) : ctx =
  let s = int_of_nat m.pm.nS and a = int_of_nat m.pm.nA and o = int_of_nat m.nO in
  let all = rall m in
  let rmax = List.fold_left q_max (List.hd all) all in
  let rmin = List.fold_left (fun x y -> if q_le x y then x else y) (List.hd all) all in
  let ao = a * o in
  let budget = 1500 in
  let rec depth n acc = if n >= 7 || acc * ao > budget then n else depth (n + 1) (acc * ao) in
  let nmax = if ao <= 1 then 7 else depth 0 1 in
  { m; s; a; o; rmax; rmin; nmax = max 2 nmax; cache = Hashtbl.create 64 }

let evs (c : ctx) (b : q list) : q array =
  let key = str_qs b in
  match Hashtbl.find_opt c.cache key with
  | Some e -> e
  | None -> let e = Array.init (c.nmax + 1) (fun n -> eV_r c.m (nat n) b) in Hashtbl.replace c.cache key e; e

let dotq (v : q list) (b : q list) = dot v b

(* f(b) is claimed to be a lower bound of V*(b) *)
let check_lb ?(rel = tiny) c clause site what (b : q list) (fb : q) =
  let e = evs c b in
  for n = 0 to c.nmax do
    let bound = q_add e.(n) (tail_r c.m c.rmax (nat n)) in
    if not (le_tol ~rel fb bound) then
      oracle_fail clause site (Printf.sprintf "%s at belief [%s]: value %s exceeds EV_%d + g^%d Rmax/(1-g) = %s"
                                 what (str_qs b) (string_of_q fb) n n (string_of_q bound))
  done
(* f(b) is claimed to be an upper bound of V*(b) *)
let check_ub ?(rel = tiny) c clause site what (b : q list) (fb : q) =
  let e = evs c b in
  for n = 0 to c.nmax do
    let bound = q_add e.(n) (tail_r c.m c.rmin (nat n)) in
    if not (le_tol ~rel bound fb) then
      oracle_fail clause site (Printf.sprintf "%s at belief [%s]: value %s is below EV_%d + g^%d Rmin/(1-g) = %s"
                                 what (str_qs b) (string_of_q fb) n n (string_of_q bound))
  done
(* finite horizon: f(b) <= EV_h(b)  /  EV_h(b) <= f(b) *)
let check_le_ev ?(rel = tiny) c clause site what h (b : q list) (fb : q) =
  if h <= c.nmax then begin
    let e = (evs c b).(h) in
    if not (le_tol ~rel fb e) then
      oracle_fail clause site (Printf.sprintf "%s at belief [%s]: value %s exceeds EV_%d = %s" what (str_qs b) (string_of_q fb) h (string_of_q e))
  end
let check_ge_ev ?(rel = tiny) c clause site what h (b : q list) (fb : q) =
  if h <= c.nmax then begin
    let e = (evs c b).(h) in
    if not (le_tol ~rel e fb) then
      oracle_fail clause site (Printf.sprintf "%s at belief [%s]: value %s is below EV_%d = %s" what (str_qs b) (string_of_q fb) h (string_of_q e))
  end

let best_of (vl : (int * q list) list) b = best (List.map snd vl) b

let cmp_vecs ~rel clause site (mv : q list list) (iv : q list list) =
  if List.length mv <> List.length iv then disagree clause site "different number of vectors";
  List.iter2 (fun x y ->
      if List.length x <> List.length y then disagree clause site "different vector length";
      List.iter2 (fun p q' -> if not (close_tol ~rel p q') then
                     disagree clause site (Printf.sprintf "model %s impl %s" (string_of_q p) (string_of_q q'))) x y) mv iv

let grid_with_corners c (bs : q list list) : q list list =
  let corners = List.map (fun i -> List.map (fun j -> if i = j then q_one else q_zero) (range 0 c.s)) (range 0 c.s) in
  corners @ bs

(* checks shared by SARSOP / GapMin returned tuples and snapshots *)
let check_anytime c site tag (b0 : q list) grid (lb, ub, vl, ubq) =
  let rel = q_of_ints 1 100000 in
  (* SARSOP backs up with bestConservativeAction: its skipped-observation defect can only show with negative values *)
  let sfx = if site = "SARSOP::operator()" && q_lt c.rmin q_zero then "_negR" else "" in
  if not (le_tol ~rel lb ub) then oracle_fail ("anytime_lb_le_ub" ^ sfx) site (Printf.sprintf "%s: lb %s > ub %s" tag (string_of_q lb) (string_of_q ub));
  check_lb ~rel c ("anytime_lb_sound" ^ sfx) site (tag ^ " lb(b0)") b0 lb;
  check_ub ~rel c "anytime_ub_sound" site (tag ^ " ub(b0)") b0 ub;
  List.iter (fun b ->
      List.iter (fun (_, v) -> check_lb ~rel c ("anytime_lbvec_sound" ^ sfx) site (tag ^ " LB vector") b (dotq v b)) vl;
      check_ub ~rel c "anytime_ubq_sound" site (tag ^ " ubQ surface") b (lin_surface c.m ubq b)) grid

(* ---- per-event certificates on the event-level hook (fixes/C03-hook-events.patch): every alpha vector
   must pass lb_event_ok against the vectors alive when it was made, every new belief point / corner
   write must pass ub_point_ok / ub_corner_ok against a surface of the history (lb_trace_sound /
   ub_trace_sound then make every entry sound); prunings must only remove entries. *)
let vec_eq a b = List.length a = List.length b && List.for_all2 q_eq a b
let rec product (ls : int list list) (cap : int) : int list list =
  match ls with
  | [] -> [[]]
  | l :: t -> let rest = product t cap in
    let all = List.concat_map (fun x -> List.map (fun r -> x :: r) rest) l in
    if List.length all > cap then List.filteri (fun i _ -> i < cap) all else all

let replay_events cx site (b0 : q list) (r : cursor) : int =
  let m = cx.m in
  let nev = bounded_count site r in
  let scale = q_add q_one (vio_qdiv (q_add (q_abs cx.rmax) (q_abs cx.rmin)) (q_sub q_one m.pm.gam)) in
  let d = q_mul (q_of_ints 1 10000000) scale in
  let live = ref [] and hist = ref [] and certified = ref 0 in
  let read_state () =
    let vl = read_vlist site cx.s r in let ubq = read_mat site r in let ubv = read_ubv site cx.s r in (vl, ubq, ubv) in
  for ev = 1 to nev do
    let kind = next_int r in
    (match kind with
     | 0 ->
       let (vl, ubq, ubv) = read_state () in
       live := List.map snd vl; hist := [(ubq, ubv)];
       List.iter (fun (b, v) -> if not (le_tol ~rel:(q_of_ints 1 10000000) (lin_surface m ubq b) v) && not (vec_eq b b0 && false) then
                     oracle_fail "ub_event_ok" site "initial belief point lies below the corner planes of the FIB table") ubv
     | 1 ->
       let b = take_n cx.s (fun () -> fin site r) in
       let _lb = fin site r in let ub = fin site r in
       let corner = next_int r = 1 in let cs = next_int r in let ua = next_int r in
       let (vl, ubq, ubv) = read_state () in
       if !hist = [] then failwith "event stream does not start with Init";
       (* --- lower bound: the new alpha is the last entry *)
       let nl = List.length vl in
       if nl <> List.length !live + 1 then oracle_fail "lb_event_ok" site (Printf.sprintf "event %d: a backup must add exactly one vector" ev);
       let (aa, alpha) = List.nth vl (nl - 1) in
       if aa < 0 || aa >= cx.a then oracle_fail "lb_event_ok" site "alpha vector with an action out of range";
       let cands = List.map (fun o ->
           let t = tau_step m b (nat aa) (nat o) in
           let vals = List.map (fun v -> dot v t) !live in
           let mx = List.fold_left q_max (List.hd vals) vals in
           let idx = List.filteri (fun _ _ -> true) (List.mapi (fun i v -> (i, v)) vals) in
           List.filter_map (fun (i, v) -> if q_le (q_sub mx v) d then Some i else None) idx) (range 0 cx.o) in
       let combos = product cands 256 in
       if not (List.exists (fun links -> lb_event_ok m !live (nat aa) (List.map nat links) alpha d) combos) then
         oracle_fail "lb_event_ok" site (Printf.sprintf "event %d: alpha [%s] (action %d, belief [%s]) exceeds the backup of the best live vectors" ev (str_qs alpha) aa (str_qs b));
       live := List.map snd vl;
       (* --- upper bound *)
       let (cq, cpts) = List.hd !hist in
       let hl = List.length !hist in
       if corner then begin
         if cs < 0 || cs >= cx.s || ua < 0 || ua >= cx.a then oracle_fail "ub_event_ok" site "corner write out of range";
         let v = qget ubq (nat cs) (nat ua) in
         if not (q_eq v ub) then oracle_fail "ub_event_ok" site "corner entry differs from the reported UB";
         if not (List.exists (fun k -> ub_corner_ok m !hist (nat cs) (nat ua) v (nat k) d) (range 0 hl)) then
           oracle_fail "ub_event_ok" site (Printf.sprintf "event %d: corner write ubQ(%d,%d) := %s is below the one-step look-ahead over every surface of the history" ev cs ua (string_of_q v));
         (* all other entries unchanged *)
         List.iteri (fun s row -> List.iteri (fun a x -> if not (s = cs && a = ua) && not (q_eq x (qget cq (nat s) (nat a))) then
                                           oracle_fail "ub_event_ok" site "a backup changed another corner entry") row) ubq;
         if List.length ubv <> List.length cpts then oracle_fail "ub_event_ok" site "a corner backup changed the point set"
       end else begin
         if List.length ubv <> List.length cpts + 1 then oracle_fail "ub_event_ok" site "a backup must add exactly one belief point";
         let (pb, pv) = List.nth ubv (List.length ubv - 1) in
         if not (vec_eq pb b && q_eq pv ub) then oracle_fail "ub_event_ok" site "new point differs from the reported belief / UB";
         let ks = List.map (fun a ->
             match List.find_opt (fun k -> q_le (ub_backup m (List.nth !hist k) b (nat a)) (q_add pv d)) (range 0 hl) with
             | Some k -> k
             | None -> oracle_fail "ub_event_ok" site (Printf.sprintf "event %d: point ([%s], %s) is below the one-step look-ahead of action %d over every surface of the history" ev (str_qs b) (string_of_q pv) a)) (range 0 cx.a) in
         if not (ub_point_ok m !hist b pv (List.map nat ks) d) then oracle_fail "ub_event_ok" site "ub_point_ok rejects the certificate found"
       end;
       hist := (ubq, ubv) :: !hist; incr certified
     | 2 | 3 ->
       let (vl, ubq, ubv) = read_state () in
       if !hist = [] then failwith "event stream does not start with Init";
       let (cq, cpts) = List.hd !hist in
       List.iter (fun (_, v) -> if not (List.exists (vec_eq v) !live) then oracle_fail "lb_prune_subset" site "pruning introduced a new vector") vl;
       live := List.map snd vl;
       List.iter2 (fun r1 r2 -> if not (vec_eq r1 r2) then oracle_fail "ub_prune_subset" site "pruning changed the corner table") ubq cq;
       List.iter (fun (pb, pv) -> if not (List.exists (fun (b', v') -> vec_eq pb b' && q_eq pv v') cpts) then
                     oracle_fail "ub_prune_subset" site "pruning introduced a new belief point") ubv;
       hist := (ubq, ubv) :: !hist
     | _ -> failwith "unknown event kind")
  done;
  !certified

(* all checks on one "direct" output block: Blind (both modes), FIB, QMDP, PBVI, PERSEUS on model m *)
let check_direct_block (cx : ctx) (repr : string) (hB : int) (hF : int) (hQ : int) (exact : bool) (grid : q list list) (r : cursor) : unit =
  let m = cx.m in
  (* discounts in (0.9999, 1): the unrepaired start value/std::max(0.0001, 1-discount) (fixes/C03-bound-init-guard.patch) *)
  let gsfx = if q_lt (q_sub q_one m.pm.gam) (q_of_ints 1 10000) then "_guard" else "" in
  let rel = if exact then q_zero else q_of_ints 1 1000000000 in
  check_status "direct" r;
  (* ---- parse everything first *)
  let sB = "BlindStrategies::operator()" and sF = "FastInformedBound::operator()" and sQ = "QMDP::operator()"
  and sP = "PBVI::operator()" and sE = "PERSEUS::operator()" in
  expect r "blindT"; let _ = fin sB r in let blindT = read_vlist sB cx.s r in
  expect r "blindF"; let _ = fin sB r in let blindF = read_vlist sB cx.s r in
  let fibq = if repr <> "sparse" then begin expect r "fib"; let _ = fin sF r in Some (read_mat sF r) end else None in
  expect r "qmdp"; let _ = fin sQ r in let qq = read_mat sQ r in let qvl = read_vlist sQ cx.s r in
  expect r "pbvi"; let _ = fin sP r in let np = bounded_count sP r in let pbvi_full = take_n np (fun () -> read_vlist_full sP cx.s r) in let pbvi = List.map strip pbvi_full in
  expect r "perseus"; let _ = fin sE r in let ne = bounded_count sE r in let pers_full = take_n ne (fun () -> read_vlist_full sE cx.s r) in let pers = List.map strip pers_full in
  (* ---- O *)
  if List.length blindT <> cx.a || List.length blindF <> cx.a then oracle_fail "blind_shape" sB "one vector per action expected";
  List.iter (fun b ->
      List.iter (fun (_, v) -> check_lb cx ("blind_sound" ^ gsfx) sB "Blind(fasterConvergence) vector" b (dotq v b)) blindT;
      List.iter (fun (_, v) -> check_le_ev cx "blind_finite_sound" sB "Blind(finite) vector" (hB + 1) b (dotq v b)) blindF;
      (match fibq with Some q -> check_ub cx ("fib_sound" ^ gsfx) sF "FIB surface" b (lin_surface m q b) | None -> ());
      if hQ >= 1 then check_ge_ev cx "qmdp_sound" sQ "QMDP surface" hQ b (lin_surface m qq b);
      List.iteri (fun k vl -> check_le_ev cx "pbvi_sound" sP (Printf.sprintf "PBVI horizon-%d surface" k) k b (best_of vl b)) pbvi;
      List.iteri (fun k vl -> List.iter (fun (_, v) -> check_lb cx "perseus_sound" sE (Printf.sprintf "PERSEUS horizon-%d vector" k) b (dotq v b)) vl) pers
    ) grid;
  (* premise of perseus_sound on the implementation's own start vector: k (1 - g) <= every reward *)
  (match pers_full with
   | v0 :: _ ->
     List.iter (fun e -> List.iter (fun k ->
         let lhs = q_mul k (q_sub q_one m.pm.gam) in
         if not (le_tol lhs cx.rmin) then
           oracle_fail "perseus_start_sound" sE (Printf.sprintf "start value %s times (1 - discount) = %s exceeds the minimal reward %s: not a lower bound of V*"
                                                   (string_of_q k) (string_of_q lhs) (string_of_q cx.rmin))) e.vals) v0
   | [] -> ());
  (* proof-carrying lower bounds: every PBVI / PERSEUS entry is the plan of its links over the previous list
     (C02.Spec.check_vf); pbvi_sound / perseus_sound then apply to the implementation's own lists *)
  let ptol = q_of_ints 1 100000000 in   (* R/|O| shares are not dyadic for |O| = 3 *)
  (match pbvi_full with
   | v0 :: rest_ -> if not (check_vf ptol m v0 rest_) then oracle_fail "pbvi_entries_are_plans" sP "an entry is not the plan of its links (or a link is out of range)"
   | [] -> oracle_fail "pbvi_shape" sP "empty value function");
  (match pers_full with
   | v0 :: rest_ -> if not (check_vf ptol m v0 rest_) then oracle_fail "perseus_entries_are_plans" sE "an entry is not the plan of its links (or a link is out of range)"
   | [] -> oracle_fail "perseus_shape" sE "empty value function");
  (* QMDP's VList is the list of columns of its Q-function *)
  List.iteri (fun a (_, v) -> if not (List.for_all2 q_eq v (qcol qq (nat a))) then oracle_fail "qmdp_vlist" sQ "VList entry is not the Q-function column") qvl;
  (* ---- C *)
  let (_, mT) = blind_run m true (nat hB) q_zero in cmp_vecs ~rel ("blind_run_fc" ^ gsfx) sB mT (List.map snd blindT);
  let (_, mF) = blind_run m false (nat hB) q_zero in cmp_vecs ~rel "blind_run" sB mF (List.map snd blindF);
  (match fibq with Some q -> let (_, mq) = fib_run m (nat hF) q_zero in cmp_vecs ~rel ("fib_run" ^ gsfx) sF mq q | None -> ());
  let (_, mq) = qmdp_run m (nat hQ) q_zero in cmp_vecs ~rel "qmdp_run" sQ mq qq;
  ()

let judge _id (c : cursor) (r : cursor) : bool * string =
  let kind = next c in
  match kind with
  | "direct" ->
    let repr = next c in
    let hB = next_int c in let hF = next_int c in let hQ = next_int c in let hP = next_int c in
    let _nPers = next_int c in let _minRew = next_q c in
    let m = read_pomdp c in
    if not (wf_mdpb m.pm) then failwith "generator produced an ill-formed MDP";
    let cx = mk_ctx m in
    let bs = read_beliefs c cx.s in
    let grid = grid_with_corners cx bs in
    let exact = (next c = "exact") in
    check_direct_block cx repr hB hF hQ exact grid r;
    (hB >= 1 && hF >= 1 && cx.o >= 2, "direct-" ^ repr ^ (if exact then "-exact" else ""))
  | "reuse" ->
    let hB = next_int c in let hF = next_int c in let hQ = next_int c in let _hP = next_int c in
    let _nPers = next_int c in let _atol = next_q c in let np = next_int c in
    let ms = take_n np (fun () -> read_pomdp c) in
    let cxs = List.map mk_ctx ms in
    let cx0 = List.hd cxs in
    let b0 = take_n cx0.s (fun () -> next_q c) in
    let bs = read_beliefs c cx0.s in
    List.iter (fun cx -> check_direct_block cx "dense" hB hF hQ false (grid_with_corners cx bs) r) cxs;
    if peek r = "NOCONV" then (true, "reuse-noconv") else begin
      List.iter (fun (tag, site) ->
          List.iteri (fun k cx ->
              expect r tag;
              let lb = fin site r in let ub = fin site r in let vl = read_vlist site cx.s r in let ubq = read_mat site r in
              check_anytime cx site (Printf.sprintf "reused solver, problem %d" (k + 1)) b0 (grid_with_corners cx bs) (lb, ub, vl, ubq)) cxs)
        [("sarsop", "SARSOP::operator()"); ("gapmin", "GapMin::operator()")];
      (true, "reuse")
    end
  | "resume" ->
    let h1 = next_int c in let h2 = next_int c in
    let m = read_pomdp c in
    let cx = mk_ctx m in
    let bs = read_beliefs c cx.s in
    let grid = grid_with_corners cx bs in
    let site = "PBVI::operator()" in
    check_status site r;
    let rd tag = expect r tag; let _ = fin site r in let n = bounded_count site r in take_n n (fun () -> read_vlist_full site cx.s r) in
    let resumed = rd "resumed" in
    let fresh = rd "fresh" in
    if List.length resumed <> h1 + h2 + 1 then oracle_fail "pbvi_shape" site "a resumed solve must return h1 + h2 + 1 lists";
    (* O: pbvi_sound at every horizon of the resumed value function, and the plan chain *)
    List.iter (fun b ->
        List.iteri (fun k vl -> List.iter (fun e ->
            check_le_ev cx "pbvi_sound" site (Printf.sprintf "resumed PBVI (%d + %d steps) horizon-%d vector" h1 h2 k) k b (dotq e.vals b)) vl) resumed) grid;
    (match resumed with
     | v0 :: rest_ -> if not (check_vf (q_of_ints 1 100000000) m v0 rest_) then oracle_fail "pbvi_entries_are_plans" site "resumed solve: an entry is not the plan of its links over the previous list"
     | [] -> ());
    (* C: resume(h1) + (h2) = fresh(h1 + h2) on the same belief set, list by list as sets of vectors *)
    let canon l = List.sort compare (List.map (fun e -> List.map (fun x -> Printf.sprintf "%.9e" (float_of_q x)) e.vals) l) in
    if List.length fresh <> List.length resumed then disagree "pbvi_resume_eq_fresh" site "different number of horizons";
    List.iteri (fun k (a, b) -> if canon a <> canon b then disagree "pbvi_resume_eq_fresh" site (Printf.sprintf "horizon %d: resumed and fresh lists differ" k))
      (List.combine resumed fresh);
    (h1 >= 1 && h2 >= 1, "resume")
  | "conv" ->
    let tol = next_q c in
    let m = read_pomdp c in
    let cx = mk_ctx m in
    let bs = read_beliefs c cx.s in
    let grid = grid_with_corners cx bs in
    check_status "conv" r;
    let sB = "BlindStrategies::operator()" and sF = "FastInformedBound::operator()" and sQ = "QMDP::operator()" in
    expect r "fib"; let _ = fin sF r in let fq = read_mat sF r in
    expect r "qmdp"; let _ = fin sQ r in let qq = read_mat sQ r in
    expect r "blindT"; let _ = fin sB r in let bl = read_vlist sB cx.s r in
    (* distance of a tolerance-stopped iterate to its fixed point: tol * g / (1-g) <= tol/(1-g) *)
    let one_minus_g = q_sub q_one m.pm.gam in
    let dfix = vio_qdiv (q_mul (qi 2) tol) one_minus_g in
    List.iter (fun b ->
        check_ub cx "fib_sound" sF "FIB(converged) surface" b (lin_surface m fq b);
        check_ub cx "qmdp_sound" sQ "QMDP(converged) surface" b (q_add (lin_surface m qq b) dfix);
        List.iter (fun (_, v) -> check_lb cx "blind_sound" sB "Blind(converged) vector" b (dotq v b)) bl) grid;
    List.iteri (fun s row -> List.iteri (fun a x ->
        let f = qget fq (nat s) (nat a) in
        if not (le_tol f (q_add x dfix)) then
          oracle_fail "qmdp_ge_fib" sQ (Printf.sprintf "Q(%d,%d): QMDP %s < FIB %s" s a (string_of_q x) (string_of_q f))) row) qq;
    (* certificate: the FIB table dominates its own backup up to the stopping tolerance *)
    if not (supersol_okb m fq (q_add tol tiny)) then oracle_fail "fib_supersolution" sF "returned table is not a super-solution of the FIB operator";
    (* C: same stopping rule in the model; tolerance-stopped runs may differ by one iteration *)
    let near a b = q_le (q_abs (q_sub a b)) (q_add (q_mul (qi 3) tol) tiny) in
    let (_, mf) = fib_run m (nat 100000) tol in
    List.iter2 (fun x y -> List.iter2 (fun p q' -> if not (near p q') then disagree "fib_run_tol" sF "model and implementation differ by more than 3 tol") x y) mf fq;
    let (_, mq) = qmdp_run m (nat 100000) tol in
    List.iter2 (fun x y -> List.iter2 (fun p q' -> if not (near p q') then disagree "qmdp_run_tol" sQ "model and implementation differ by more than 3 tol") x y) mq qq;
    let (_, mb) = blind_run m true (nat 100000) tol in
    List.iter2 (fun x (_, y) -> List.iter2 (fun p q' -> if not (near p q') then disagree "blind_run_tol" sB "model and implementation differ by more than 3 tol") x y) mb bl;
    (true, "conv")
  | "fibsparse" ->
    let hF = next_int c in
    let m = read_pomdp c in
    let cx = mk_ctx m in
    let bs = read_beliefs c cx.s in
    let grid = grid_with_corners cx bs in
    let sF = "FastInformedBound::operator()<sparse>" in
    check_status sF r;
    expect r "fib"; let _ = fin sF r in let fq = read_mat sF r in
    expect r "fibdense"; let _ = fin sF r in let fd = read_mat sF r in
    List.iter (fun b -> check_ub cx "fib_sound" sF "FIB(sparse rewards) surface" b (lin_surface m fq b)) grid;
    let (_, mq) = fib_run m (nat hF) q_zero in
    cmp_vecs ~rel:tiny "fib_run_sparse" sF mq fq;
    cmp_vecs ~rel:tiny "fib_run" "FastInformedBound::operator()" mq fd;
    (List.exists (fun x -> q_eq x q_zero) (rall m), "fibsparse")
  | "bca" ->
    let m = read_pomdp c in
    let cx = mk_ctx m in
    let b = take_n cx.s (fun () -> next_q c) in
    let nv = next_int c in
    let lbv = take_n nv (fun () -> take_n cx.s (fun () -> next_q c)) in
    let bs = read_beliefs c cx.s in
    let grid = grid_with_corners cx bs in
    let site = "bestConservativeAction" in
    check_status site r;
    let ia = next_int r in let iv = fin site r in let alpha = take_n cx.s (fun () -> fin site r) in
    if ia < 0 || ia >= cx.a then oracle_fail "backup_lb_action" site "action out of range";
    (* O: the inputs are sound lower-bound vectors, so the new vector and value must be sound *)
    let skipped = List.exists (fun a -> List.exists (fun o ->
        eqSmall (qsum (tau_step m b (nat a) (nat o))) q_zero) (range 0 cx.o)) (range 0 cx.a) in
    let clause = if skipped && q_lt cx.rmin q_zero then "backup_lb_sound_skipped_obs" else "backup_lb_sound" in
    List.iter (fun g -> check_lb cx clause site "backed-up alpha vector" g (dotq alpha g)) grid;
    check_lb cx clause site "backed-up value" b iv;
    if not (close_tol iv (dotq alpha b)) then oracle_fail "backup_lb_value" site "returned value is not alpha . b";
    (* C: value against the model (the vector itself only when the model's choice is unambiguous) *)
    let ((_, mv), _) = best_conservative m lbv b in
    if not (close_tol mv iv) then disagree "best_conservative" site (Printf.sprintf "model value %s impl %s" (string_of_q mv) (string_of_q iv));
    (true, "bca")
  | "sarsop" | "gapmin" ->
    let site = if kind = "sarsop" then "SARSOP::operator()" else "GapMin::operator()" in
    let _tol = next c in let _p2 = next c in let _maxIter = next c in
    let m = read_pomdp c in
    let cx = mk_ctx m in
    let b0 = take_n cx.s (fun () -> next_q c) in
    let bs = read_beliefs c cx.s in
    let grid = grid_with_corners cx bs in
    let corner = List.exists (fun x -> q_eq x q_one) b0 in
    (match peek r with
     | ("CRASH" | "SANITIZER") when kind = "sarsop" && corner ->
       oracle_fail "solver_returns_corner_b0" site ("implementation did not return: " ^ String.concat " " (rest r))
     | _ -> check_status site r);
    if peek r = "NOCONV" then (false, kind ^ "-noconv") else begin
      expect r "ret";
      let lb = fin site r in let ub = fin site r in let vl = read_vlist site cx.s r in let ubq = read_mat site r in
      check_anytime cx site "returned" b0 grid (lb, ub, vl, ubq);
      expect r "snaps";
      let ns = bounded_count site r in
      for k = 1 to ns do
        let lb = fin site r in let ub = fin site r in let vl = read_vlist site cx.s r in let ubq = read_mat site r in
        let ubv = read_ubv site cx.s r in
        check_anytime cx site (Printf.sprintf "snapshot %d" k) b0 grid (lb, ub, vl, ubq);
        (* belief points of the upper bound: each (b_i, v_i) claims V*(b_i) <= v_i *)
        List.iteri (fun i (bi, vi) -> if i < 6 then check_ub ~rel:(q_of_ints 1 100000) cx "anytime_ubv_sound" site (Printf.sprintf "snapshot %d ubV point" k) bi vi) ubv
      done;
      let ncert = if (not (at_end r)) && peek r = "events" then (expect r "events"; replay_events cx site b0 r) else 0 in
      (List.length vl >= 1, kind ^ (if ncert > 0 then "-events" else if ns > 0 then "-hook" else ""))
    end
  | "perseus_d1" ->
    let site = "PERSEUS::operator()" in
    (match peek r with
     | "THROW" -> (true, "perseus_d1")
     | _ -> oracle_fail "perseus_rejects_discount1" site ("a model with discount 1 was accepted (no finite start value exists): " ^ String.concat " " (rest r)))
  | "bpa" ->
    let _hF = next_int c in
    let m = read_pomdp c in
    let cx = mk_ctx m in
    let b = take_n cx.s (fun () -> next_q c) in
    let site = "bestPromisingAction" in
    check_status site r;
    let ubq = read_mat site r in let ubv = read_ubv site cx.s r in
    let rd tag = expect r tag; let a = next_int r in let v = fin site r in let vals = take_n cx.a (fun () -> fin site r) in (a, v, vals) in
    let (sa, sv, svals) = rd "saw" in
    let (la, lv, lvals) = rd "lp" in
    let rel = q_of_ints 1 100000000 in
    (* O: every per-action value must bound the action's value at every level:
       vals[a] >= R(b,a) + g sum_o [ EV_n + g^n Rmin/(1-g) mass ](tau(b,a,o))   (best_promising_sound) *)
    let massq t = List.fold_left q_add q_zero t in
    let qlev n a =
      let na = nat a in
      let fut = List.fold_left (fun acc o ->
          let t = tau_step_r m b na (nat o) in
          q_add acc (q_add (eV_r m (nat n) t) (q_mul (tail_r m cx.rmin (nat n)) (massq t)))) q_zero (range 0 cx.o) in
      q_add (rew_at m b na) (q_mul m.pm.gam fut) in
    let nq = max 0 (cx.nmax - 1) in
    List.iter (fun (clause, vals) ->
        List.iteri (fun a x ->
            for n = 0 to nq do
              let lo = qlev n a in
              if not (le_tol ~rel lo x) then
                oracle_fail clause site (Printf.sprintf "vals[%d] = %s is below the action's %d-step value bound %s at belief [%s]" a (string_of_q x) (n + 1) (string_of_q lo) (str_qs b))
            done) vals) [("best_promising_sound", svals); ("best_promising_lp_sound", lvals)];
    List.iter (fun (a, v, vals) ->
        if a < 0 || a >= cx.a then oracle_fail "best_promising_value" site "action out of range";
        let mx = List.fold_left q_max (List.hd vals) vals in
        if not (q_eq v mx && q_eq (List.nth vals a) v) then oracle_fail "best_promising_value" site "returned value is not the maximum of the per-action values") [(sa, sv, svals); (la, lv, lvals)];
    (* C: the sawtooth variant against the model R(b,a) + g sum_o usurf(tau(b,a,o)) *)
    List.iteri (fun a x ->
        let mv = ub_backup m (ubq, ubv) b (nat a) in
        if not (close_tol ~rel mv x) then disagree "ub_backup" site (Printf.sprintf "vals[%d]: model %s impl %s" a (string_of_q mv) (string_of_q x))) svals;
    (List.length ubv >= 1, "bpa")
  | "cleanup" ->
    let _tol = next c in let s = next_int c in let a = next_int c in
    let _ubq = take_n (s * a) (fun () -> next_q c) in
    let np = next_int c in
    let _pts = take_n np (fun () -> let b = take_n s (fun () -> next_q c) in let v = next_q c in (b, v)) in
    let site = "GapMin::cleanUp" in
    check_status site r;
    let ubv = read_ubv site s r in
    let fibq = read_mat site r in
    if List.length fibq <> s + List.length ubv then oracle_fail "cleanup_rows" site "fibQ row count differs from S + number of points";
    (* row S+i of fibQ was filled with the value of point i: after the clean-up it must still sit beside its point *)
    List.iteri (fun i (_, v) ->
        let row = List.nth fibq (s + i) in
        if not (List.for_all (fun x -> q_eq x v) row) then
          oracle_fail "cleanup_alignment" site (Printf.sprintf "fibQ row %d belongs to another belief point (row value %s, point value %s)" (s + i) (string_of_q (List.hd row)) (string_of_q v))) ubv;
    (List.length ubv < np, "cleanup")
  | k -> failwith ("unknown case kind " ^ k)

let () = main_loop judge
