(* ml/C03/pomdpio.ml (copy of ml/C02/pomdpio.ml without read_vf) — parse the exact POMDP / value-function exchange format into the
   extracted Coq records. *)
open Model
open Vio

let rec take_n n f = if n = 0 then [] else let x = f () in x :: take_n (n - 1) f

let read_pomdp (c : cursor) : pomdp =
  let s = next_int c in let a = next_int c in let o = next_int c in let g = next_q c in
  let p = take_n a (fun () -> take_n s (fun () -> take_n s (fun () -> next_q c))) in
  let r = take_n s (fun () -> take_n a (fun () -> next_q c)) in
  let ob = take_n a (fun () -> take_n s (fun () -> take_n o (fun () -> next_q c))) in
  { pm = { nS = nat_of_int s; nA = nat_of_int a; p = p; r = r; gam = g }; nO = nat_of_int o; ob = ob }

let read_beliefs (c : cursor) (s : int) : vec list =
  let nb = next_int c in take_n nb (fun () -> take_n s (fun () -> next_q c))
