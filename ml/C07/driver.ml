(* ml/C07/driver.ml — judge for property C07.
   O (oracle): the implementation's outputs are compared with the statistics recomputed from the raw
               history by the Coq-extracted spec (count / countsum / mean_x / m2_x / freq_x), for
               every row the Coq-defined tracker (Spec.trk_step) classifies as RSynced, and with the
               fixed default for never-visited pairs.
   C (correspondence): every output is compared with the extracted model run on the same ops. *)
open Model
open Vio

let i = int_of_nat
let i_ = int_of_nat
let n_ = nat_of_int

(* tolerance for values that went through double rounding (divisions by N are not dyadic) *)
let tol_a = q_of_ints 1 1000000000
let close a b = q_close ~atol:tol_a ~rtol:tol_a a b
let close6 a b = q_close ~atol:(q_of_ints 2 1000000) ~rtol:tol_a a b

(* implementation doubles are read as OCaml floats; fast accept when within 1e-10 of the float image
   of the model value, otherwise the exact rational comparison (1e-9 abs+rel) decides *)
let next_f (c : cursor) : float =
  let tk = next c in
  match String.lowercase_ascii tk with
  | "nan" | "-nan" -> Float.nan | "inf" -> Float.infinity | "-inf" -> Float.neg_infinity
  | _ -> float_of_string tk
let closef_gen exact (x : float) (y : q) : bool =
  Float.is_finite x &&
  (let yf = float_of_q y in
   (Float.is_finite yf && Float.abs (x -. yf) <= 1e-10 *. (1.0 +. Float.abs yf)) || exact (q_of_float x) y)
let closef = closef_gen close
let closef6 = closef_gen close6

type model =
  | Dense of { mutable fx : mlm; mutable asis : mlm; mutable tr : trk }
  | Sparse of { mutable sm : sml; mutable sm_asis : sml; mutable str : trk; eigen : bool }

(* Posterior-sampling (Thompson) rows: deterministic, distribution-level oracle + correspondence with
   the Coq normalisation model applied to the replayed draws.
   [n] number of records of the row, [mu]/[m2q] their mean / M2 recomputed from the raw history. *)
let judge_thompson_row site what (g : float list) (t : float) (irow : float list) (iR : float) (n : int) (mu : q) (m2q : q) =
  (* O: thompson_rows_valid *)
  List.iteri (fun k p -> if not (Float.is_finite p) || p < 0.0 || p > 1.0 +. 1e-12 then
                 oracle_fail "thompson_rows_valid" site (Printf.sprintf "%s: P(%d)=%h is not a probability" what k p)) irow;
  let sum = List.fold_left (+.) 0.0 irow in
  if Float.abs (sum -. 1.0) > 1e-9 then oracle_fail "thompson_rows_valid" site (Printf.sprintf "%s: row sums to %.12g [%s]" what sum (String.concat " " (List.map (Printf.sprintf "%g") irow)));
  (* O: reward = empirical mean (+ t * sqrt(M2/(n(n-1))) once two samples exist) *)
  let muf = float_of_q mu and m2f = float_of_q m2q in
  let want = if n < 2 then muf else muf +. t *. Float.sqrt (Float.max 0.0 m2f /. (float_of_int n *. float_of_int (n - 1))) in
  if not (Float.is_finite iR) || Float.abs (iR -. want) > 1e-9 *. (1.0 +. Float.abs want) then
    oracle_fail "thompson_reward" site (Printf.sprintf "%s: reward %h, expected %h (n=%d mean=%s M2=%s t=%h)" what iR want n (string_of_q mu) (string_of_q m2q) t);
  (* C: the row is the draws divided by their sum (Model.thompson_row) *)
  if List.for_all (fun x -> Float.is_finite x && x > 0.0) g then begin
    let mrow = thompson_row (List.map q_of_float g) in
    List.iteri (fun k p -> if not (closef p (List.nth mrow k)) then
                   disagree "thompson_row" site (Printf.sprintf "%s: P(%d)=%h, draws/sum gives %s" what k p (string_of_q (vio_qred (List.nth mrow k))))) irow
  end

let judge _id (c : cursor) (r : cursor) : bool * string =
  let kind = next c in
  match kind with
  | "mdp" ->
    let ek = next c in
    let eigen = (ek <> "N") in
    let sS = next_int c in let sA = next_int c in
    let nS = n_ sS and nA = n_ sA in
    let nops = next_int c in
    let e = ref (exp_new nS nA) in
    let models : model array ref = ref [||] in
    let hist_rev : hrec list ref = ref [] in
    let hlen = ref 0 in
    let per_pair : (int * int, q list) Hashtbl.t = Hashtbl.create 16 in    (* rewards, newest first *)
    let ever : (int * int, unit) Hashtbl.t = Hashtbl.create 16 in
    (* cheap running twins (trusted driver code) used between the sampled full recomputations *)
    let cnt3 : (int * int * int, int) Hashtbl.t = Hashtbl.create 64 in
    let sumq : (int * int, q) Hashtbl.t = Hashtbl.create 16 in
    let opno = ref 0 in
    let full_now () = !hlen <= 400 || !opno mod 4001 = 0 in
    let base_trk = ref (trk_new nS nA) in          (* tracker over the ops seen so far (pre-phase) *)
    let deferred : (string * string * string) option ref = ref None in
    let defer cl site d = if !deferred = None then deferred := Some (cl, site, d) in
    let nsync = ref 0 and nrec = ref 0 and nincr = ref 0 and sawreset = ref false in
    let tmodels : (int * int, float list * float) Hashtbl.t array ref = ref [||] in   (* last synced row and reward *)
    let nthompson = ref 0 in
    let dsite = "MDP::MaximumLikelihoodModel" and ssite = "MDP::SparseMaximumLikelihoodModel" in
    let esite = (match ek with "S" -> "MDP::SparseExperience" | _ -> "MDP::Experience") in
    let tsite = "MDP::ThompsonModel" in
    let rewards s a = try Hashtbl.find per_pair (s, a) with Not_found -> [] in
    (* ---- oracle on experience cell (s,a) from per-pair list; counts from raw history when asked *)
    let check_stats what s a (iN : int) (iR : float) (iM : float) =
      let l = rewards s a in
      if iN <> List.length l then oracle_fail "welford_exact" (esite ^ "::record") (Printf.sprintf "%s: visitsSum(%d,%d)=%d but %d records" what s a iN (List.length l));
      if not (closef iR (mean_x l)) then oracle_fail "welford_exact" (esite ^ "::record") (Printf.sprintf "%s: reward(%d,%d)=%h, mean of history=%s" what s a iR (string_of_q (mean_x l)));
      if not (closef iM (m2_x l)) then oracle_fail "welford_exact" (esite ^ "::record") (Printf.sprintf "%s: M2(%d,%d)=%h, history gives %s" what s a iM (string_of_q (m2_x l))) in
    let hist () = List.rev !hist_rev in
    let uninit what = defer "unvisited_default" (dsite ^ "::MaximumLikelihoodModel") ("cell never written by the library (reads NaN under EIGEN_INITIALIZE_MATRICES_BY_NAN): " ^ what) in
    let check_cell_model site (iv : float) (fxv : xq) (asv : xq) what =
      match fxv, asv with
      | XNonFin, _ -> ()     (* model divided by zero: outside the precondition, values not tracked *)
      | _, XIndet when Float.is_nan iv -> uninit what
      | XFin y, _ -> if not (closef iv y) then disagree "model_row" site (Printf.sprintf "%s: impl %h model %s" what iv (string_of_q y))
      | XIndet, _ -> disagree "model_row" site (what ^ ": repaired model has an indeterminate cell") in
    let oracle_row clause site k s a (irow : float list) (iR : float) (asrow : int -> xq) tol_r =
      (* row s,a of model k is RSynced: must be the empirical distribution *)
      let full = full_now () in
      let h = if full then hist () else [] in
      let cs = if full then i (countsum h (n_ s) (n_ a)) else List.length (rewards s a) in
      if cs = 0 then oracle_fail clause site "tracker says synced but no record (driver bug?)";
      List.iteri (fun s1 iv ->
          let f = if full then freq_x h (n_ s) (n_ a) (n_ s1)
            else q_of_ints (try Hashtbl.find cnt3 (s, a, s1) with Not_found -> 0) cs in
          if Float.is_nan iv && asrow s1 = XIndet then uninit "uninitialised cell survives into a synced row"
          else if not (closef iv f) then oracle_fail clause site (Printf.sprintf "model %d: P(%d|%d,%d)=%h but empirical frequency is %s" k s1 s a iv (string_of_q f))) irow;
      let mu = if full then mean_x (rewards_of h (n_ s) (n_ a))
        else vio_qred (vio_qdiv (Hashtbl.find sumq (s, a)) (q_of_int cs)) in
      if not (tol_r iR mu) then oracle_fail clause site (Printf.sprintf "model %d: R(%d,%d)=%h but empirical mean is %s" k s a iR (string_of_q mu)) in
    let oracle_unvisited site k s a (irow : float list) (iR : float) (asrow : int -> xq) =
      List.iteri (fun s1 iv ->
          let want = if s1 = s then 1.0 else 0.0 in
          if Float.is_nan iv && asrow s1 = XIndet then uninit (Printf.sprintf "model %d: never-visited pair (%d,%d): cell %d" k s a s1)
          else if iv <> want then oracle_fail "unvisited_default" site (Printf.sprintf "model %d: never-visited pair (%d,%d): P(%d)=%h" k s a s1 iv)) irow;
      if iR <> 0.0 then oracle_fail "unvisited_default" site (Printf.sprintf "model %d: never-visited pair (%d,%d) has non-zero reward" k s a) in
    let contam : (int * int * int, unit) Hashtbl.t = Hashtbl.create 8 in
    let sparse_contaminated_raw (sm : sml) (sm_asis : sml) k s a (irow : float list) =
      (* sticky: once the as-is and repaired models have diverged on a row, the row stays excluded
         (the as-is rational model does not follow inf/nan) until the implementation is seen to
         follow the repaired model there again *)
      let idx = List.init sS (fun x -> x) in
      let diverged = List.exists (fun s1 -> not (close (ts sm (n_ a) (n_ s) (n_ s1)) (ts sm_asis (n_ a) (n_ s) (n_ s1)))) idx in
      let follows_fixed = List.for_all2 (fun s1 iv -> closef iv (ts sm (n_ a) (n_ s) (n_ s1))) idx irow in
      if follows_fixed then begin Hashtbl.remove contam (k, s, a); false end
      else if diverged || Hashtbl.mem contam (k, s, a) then begin
        Hashtbl.replace contam (k, s, a) ();
        defer "sparse_sync_overwrites_stale" (ssite ^ "::sync") (Printf.sprintf "model %d row (%d,%d): stale entries not overwritten by the non-Eigen sync(s,a); impl [%s], repaired model [%s]" k s a
          (String.concat " " (List.map (Printf.sprintf "%g") irow)) (String.concat " " (List.map (fun s1 -> string_of_q (ts sm (n_ a) (n_ s) (n_ s1))) idx)));
        true end
      else false in
    (* one (s,a) row of model k: oracle first, then correspondence *)
    let oracle_sa clause fn k s a irow iR =
      (match (!models).(k) with
       | Dense d ->
         let asrow s1 = t d.asis (n_ a) (n_ s) (n_ s1) in
         let site = dsite ^ "::" ^ fn in
         if not (Hashtbl.mem ever (s, a)) then oracle_unvisited site k s a irow iR asrow
         else if tSt d.tr (n_ s) (n_ a) = RSynced then oracle_row clause site k s a irow iR asrow closef
       | Sparse d ->
         let asrow _ = XFin q_zero in
         let site = ssite ^ "::" ^ fn in
         (* known defect of the non-Eigen branch (stale non-zero entries are not overwritten, and then
            feed the incremental renormalisation): it is active on this row exactly when the faithful
            as-is model and the repaired model differ there.  If the implementation does not follow
            the repaired model on such a row, the finding is recorded under its own clause and the row
            is not judged further. *)
         if t_bad d.str then ()     (* sparse model driven outside the precondition: no longer judged *)
         else if sparse_contaminated_raw d.sm d.sm_asis k s a irow then ()
         else if not (Hashtbl.mem ever (s, a)) then oracle_unvisited site k s a irow iR asrow
         else if tSt d.str (n_ s) (n_ a) = RSynced then oracle_row clause site k s a irow iR asrow closef6) in
    let corr_sa fn k s a irow iR =
      (match (!models).(k) with
       | Dense d ->
         let site = dsite ^ "::" ^ fn in
         List.iteri (fun s1 iv -> check_cell_model site iv (t d.fx (n_ a) (n_ s) (n_ s1)) (t d.asis (n_ a) (n_ s) (n_ s1)) (Printf.sprintf "model %d T(%d,%d,%d)" k s a s1)) irow;
         if not (closef iR (rm d.fx (n_ s) (n_ a))) then disagree "model_reward" site (Printf.sprintf "model %d R(%d,%d): impl %h model %s" k s a iR (string_of_q (rm d.fx (n_ s) (n_ a))))
       | Sparse d ->
         let site = ssite ^ "::" ^ fn in
         (* the sparse model has no x/0 tracking: once an incremental sync was called outside its
            precondition (t_bad) the values of that model are no longer compared *)
         if not (t_bad d.str) && not (sparse_contaminated_raw d.sm d.sm_asis k s a irow) then begin
           List.iteri (fun s1 iv -> let y = ts d.sm (n_ a) (n_ s) (n_ s1) in
             if not (closef iv y) then disagree "sparse_model_row" site (Printf.sprintf "model %d T(%d,%d,%d): impl %h model %s" k s a s1 iv (string_of_q y))) irow;
           if not (closef6 iR (rs d.sm (n_ s) (n_ a))) then disagree "sparse_model_reward" site (Printf.sprintf "model %d R(%d,%d) differs" k s a)
         end) in
    let judge_row clause k s a =
      let irow = List.init sS (fun _ -> next_f r) in
      let iR = next_f r in
      oracle_sa clause "sync" k s a irow iR; corr_sa "sync" k s a irow iR in
    let judge_full clause k =
      (* impl prints all T[a][s][s1] then all R[s][a] *)
      let fn = (match clause with "ctor" -> "MaximumLikelihoodModel" | _ -> "sync") in
      let tt = Array.init sA (fun _ -> Array.init sS (fun _ -> Array.init sS (fun _ -> next_f r))) in
      let rr = Array.init sS (fun _ -> Array.init sA (fun _ -> next_f r)) in
      for a = 0 to sA - 1 do for s = 0 to sS - 1 do
        oracle_sa clause fn k s a (Array.to_list tt.(a).(s)) rr.(s).(a) done done;
      for a = 0 to sA - 1 do for s = 0 to sS - 1 do
        corr_sa fn k s a (Array.to_list tt.(a).(s)) rr.(s).(a) done done in
    let step_models (o : op) =
      Array.iter (function
          | Dense d -> d.fx <- ml_step !e d.fx o; d.asis <- ml_step !e d.asis o; d.tr <- trk_step nS nA d.tr o
          | Sparse d -> d.sm <- sml_step true d.eigen !e d.sm o; d.sm_asis <- sml_step false d.eigen !e d.sm_asis o; d.str <- trk_step nS nA d.str o) !models in
    let step_model k (o : op) =
      (match (!models).(k) with
       | Dense d -> d.fx <- ml_step !e d.fx o; d.asis <- ml_step !e d.asis o; d.tr <- trk_step nS nA d.tr o
       | Sparse d -> d.sm <- sml_step true d.eigen !e d.sm o; d.sm_asis <- sml_step false d.eigen !e d.sm_asis o; d.str <- trk_step nS nA d.str o) in
    for _n = 1 to nops do
      let opk = next c in
      incr opno;
      match opk with
      | "r" ->
        let s = next_int c in let a = next_int c in let s1 = next_int c in let rew = next_q c in
        let o = ORecord (n_ s, n_ a, n_ s1, rew) in
        incr nrec;
        e := exp_step !e o;
        hist_rev := (((n_ s, n_ a), n_ s1), rew) :: !hist_rev; incr hlen;
        Hashtbl.replace per_pair (s, a) (rew :: rewards s a);
        Hashtbl.replace ever (s, a) ();
        Hashtbl.replace cnt3 (s, a, s1) (1 + (try Hashtbl.find cnt3 (s, a, s1) with Not_found -> 0));
        Hashtbl.replace sumq (s, a) (vio_qred (q_add rew (try Hashtbl.find sumq (s, a) with Not_found -> q_zero)));
        base_trk := trk_step nS nA !base_trk o;
        step_models o;
        let iV = next_int r in let iN = next_int r in let iR = next_f r in let iM = next_f r in let iT = next_int r in
        (* O: statistics from the raw history (every record while short, then sampled) *)
        if full_now () then begin
          check_stats "after record" s a iN iR iM;
          let cnt = i (count (hist ()) (n_ s) (n_ a) (n_ s1)) in
          if iV <> cnt then oracle_fail "welford_exact" (esite ^ "::record") (Printf.sprintf "visits(%d,%d,%d)=%d but history has %d" s a s1 iV cnt)
        end;
        if iT <> !hlen then oracle_fail "welford_exact" (esite ^ "::record") (Printf.sprintf "timesteps=%d but %d records since reset" iT !hlen);
        (* C *)
        if iV <> i (v !e (n_ s) (n_ a) (n_ s1)) || iN <> i (nN !e (n_ s) (n_ a)) || iT <> i (e_ts !e) then disagree "exp_counts" (esite ^ "::record") "counts differ";
        if not (closef iR (rw !e (n_ s) (n_ a))) then disagree "exp_mean" (esite ^ "::record") "running mean differs";
        if not (closef iM (m2 !e (n_ s) (n_ a))) then disagree "exp_m2" (esite ^ "::record") "M2 differs"
      | "z" ->
        sawreset := true;
        e := exp_step !e OReset; hist_rev := []; hlen := 0; Hashtbl.reset per_pair; Hashtbl.reset cnt3; Hashtbl.reset sumq;
        base_trk := trk_step nS nA !base_trk OReset;
        step_models OReset;
        let iT = next_int r in
        if iT <> 0 then oracle_fail "welford_exact" (esite ^ "::reset") "timesteps not zero after reset"
      | "m" ->
        let mk = next c in let flag = (next_int c <> 0) in
        let tr0 = trk_ctor !base_trk flag in
        let m = (if mk = "d" then Dense { fx = ml_ctor true !e flag; asis = ml_ctor false !e flag; tr = tr0 }
                 else Sparse { sm = sml_ctor true eigen !e flag; sm_asis = sml_ctor false eigen !e flag; str = tr0; eigen }) in
        models := Array.append !models [| m |];
        if flag && !hlen > 0 then incr nsync;
        judge_full "ctor" (Array.length !models - 1)
      | "y" ->
        let k = next_int c in
        step_model k OSyncAll; if !hlen > 0 then incr nsync;
        judge_full "full_sync_is_empirical" k
      | "p" ->
        let k = next_int c in let s = next_int c in let a = next_int c in
        step_model k (OSync2 (n_ s, n_ a)); if rewards s a <> [] then incr nsync;
        judge_row "full_sync_is_empirical" k s a
      | "i" ->
        let k = next_int c in let s = next_int c in let a = next_int c in let s1 = next_int c in
        step_model k (OSync3 (n_ s, n_ a, n_ s1)); if rewards s a <> [] then incr nincr;
        judge_row "incremental_sync_invariant" k s a
      | "d" ->
        let h = hist () in
        let iT = next_int r in
        if iT <> !hlen then oracle_fail "welford_exact" (esite ^ "::record") "timesteps differ from the number of records";
        for s = 0 to sS - 1 do for a = 0 to sA - 1 do
          let iN = next_int r in let iR = next_f r in let iM = next_f r in
          let iVs = List.init sS (fun _ -> next_int r) in
          (* O from the raw history through the extracted spec *)
          let l = rewards_of h (n_ s) (n_ a) in
          if iN <> i (countsum h (n_ s) (n_ a)) then oracle_fail "welford_exact" (esite ^ "::record") (Printf.sprintf "dump: visitsSum(%d,%d)" s a);
          List.iteri (fun s1 x -> if x <> i (count h (n_ s) (n_ a) (n_ s1)) then oracle_fail "welford_exact" (esite ^ "::record") (Printf.sprintf "dump: visits(%d,%d,%d)=%d" s a s1 x)) iVs;
          if not (closef iR (mean_x l)) then oracle_fail "welford_exact" (esite ^ "::record") (Printf.sprintf "dump: reward(%d,%d)" s a);
          if not (closef iM (m2_x l)) then oracle_fail "welford_exact" (esite ^ "::record") (Printf.sprintf "dump: M2(%d,%d)" s a);
          if not (closef iR (rw !e (n_ s) (n_ a))) then disagree "exp_mean" (esite ^ "::record") "dump: running mean differs";
          if not (closef iM (m2 !e (n_ s) (n_ a))) then disagree "exp_m2" (esite ^ "::record") "dump: M2 differs";
          if iN <> i (nN !e (n_ s) (n_ a)) then disagree "exp_counts" (esite ^ "::record") "dump: counts differ";
          List.iteri (fun s1 x -> if x <> i (v !e (n_ s) (n_ a) (n_ s1)) then disagree "exp_counts" (esite ^ "::record") "dump: visits differ") iVs
        done done;
        Array.iteri (fun k _ -> judge_full "ml_model_is_empirical" k) !models;
        Array.iteri (fun k tbl ->
            let tt = Array.init sA (fun _ -> Array.init sS (fun _ -> List.init sS (fun _ -> next_f r))) in
            let rr = Array.init sS (fun _ -> Array.init sA (fun _ -> next_f r)) in
            for a = 0 to sA - 1 do for s = 0 to sS - 1 do
              let irow = tt.(a).(s) in
              let sum = List.fold_left (+.) 0.0 irow in
              if List.exists (fun p -> not (Float.is_finite p) || p < 0.0) irow || Float.abs (sum -. 1.0) > 1e-9 then
                oracle_fail "thompson_rows_valid" (tsite ^ "::sync") (Printf.sprintf "dump: model %d row (%d,%d) sums to %.12g" k s a sum);
              (match Hashtbl.find_opt tbl (s, a) with
               | Some (row, rw) -> if row <> irow || rw <> rr.(s).(a) then disagree "thompson_row_stable" (tsite ^ "::sync") (Printf.sprintf "model %d row (%d,%d) changed without a sync" k s a)
               | None -> disagree "thompson_row_stable" (tsite ^ "::sync") "row never synced")
            done done) !tmodels
      | "tm" | "ty" | "tp" as opk ->
        incr nthompson;
        let k, rows = (match opk with
            | "tm" -> tmodels := Array.append !tmodels [| Hashtbl.create 16 |];
              (Array.length !tmodels - 1, List.concat (List.init sA (fun a -> List.init sS (fun s -> (s, a)))))
            | "ty" -> let k = next_int c in (k, List.concat (List.init sA (fun a -> List.init sS (fun s -> (s, a)))))
            | _ -> let k = next_int c in let s = next_int c in let a = next_int c in (k, [(s, a)])) in
        let draws = List.map (fun _ -> let g = List.init sS (fun _ -> next_f r) in let t = next_f r in (g, t)) rows in
        let h = hist () in
        List.iter2 (fun (s, a) (g, t) ->
            let irow = List.init sS (fun _ -> next_f r) in let iR = next_f r in
            let l = rewards_of h (n_ s) (n_ a) in
            judge_thompson_row (tsite ^ "::sync") (Printf.sprintf "model %d row (%d,%d)" k s a) g t irow iR (List.length l) (mean_x l) (m2_x l);
            Hashtbl.replace (!tmodels).(k) (s, a) (irow, iR)) rows draws
      | k -> failwith ("unknown op " ^ k)
    done;
    (match !deferred with Some (cl, site, d) -> oracle_fail cl site d | None -> ());
    let nt = !nrec > 0 && (!nsync + !nincr + !nthompson > 0) in
    let all_pre = Array.for_all (function Dense d -> not (t_bad d.tr) | Sparse d -> not (t_bad d.str)) !models in
    let tag = Printf.sprintf "mdp%s%s%s%s" ek (if !nincr > 0 then (if all_pre then "+incr_pre" else "+incr_wild") else "") (if !sawreset then "+reset" else "")
        (if !nrec >= 10000 then "+x10000" else "") ^ (if !nthompson > 0 then "+thompson" else "") in
    (nt, tag)
  | "coop" ->
    let sSl = next_nats c in let sAl = next_nats c in
    let nf = List.length sSl in let na = List.length sAl in
    let par = List.map (fun _ -> let ag = next_nats c in let k = next_int c in
                         let fs = List.init k (fun _ -> next_nats c) in (ag, fs)) sSl in
    let g = { cgS = sSl; cgA = sAl; cgPar = par } in
    let sizes = Array.init nf (fun i -> i_ (cg_size g (n_ i))) in
    let ncol = Array.of_list (List.map i_ sSl) in
    let e = ref (cexp_new g) in
    let hist_rev : crec list ref = ref [] in
    let hlen = ref 0 in
    let esite = "Factored::MDP::CooperativeExperience" and msite = "Factored::MDP::CooperativeMaximumLikelihoodModel" in
    (* model, Coq tracker state (Spec.ctrk_step: history + marking of rows in step), rows ever synced *)
    let models : (cml ref * (crec list * (nat -> nat -> bool)) ref * (int * int, unit) Hashtbl.t) array ref = ref [||] in
    let pre_rev : cop list ref = ref [] in
    let last_ids = ref (List.init nf (fun _ -> O)) in
    let tsite = "Factored::MDP::CooperativeThompsonModel" in
    let tmodels : (int * int, float list * float) Hashtbl.t array ref = ref [||] in
    let nrec = ref 0 and nreset = ref 0 and nsync = ref 0 in
    let proj i = List.rev_map (cproj g (n_ i)) !hist_rev in      (* order restored: rev_map of the reversed list *)
    (* statistics of one row against the raw history (O) and the model (C) *)
    let judge_row_stats what i id (vis : (int * int) list) (iN : int) (iR : float) (iM : float) hi =
      let l = row_rewards hi (n_ id) in
      List.iter (fun (v, x) -> let w = i_ (row_count hi (n_ id) (n_ v)) in
                  if x <> w then oracle_fail "coop_welford_exact" (esite ^ "::record") (Printf.sprintf "%s: node %d row %d: visits(value %d)=%d but history has %d" what i id v x w)) vis;
      if iN <> List.length l then oracle_fail "coop_welford_exact" (esite ^ "::record") (Printf.sprintf "%s: node %d row %d: visit sum %d but %d records" what i id iN (List.length l));
      if not (closef iR (mean_x l)) then oracle_fail "coop_welford_exact" (esite ^ "::record") (Printf.sprintf "%s: node %d row %d: reward %h, mean of history %s" what i id iR (string_of_q (mean_x l)));
      if not (closef iM (m2_x l)) then oracle_fail "coop_welford_exact" (esite ^ "::record") (Printf.sprintf "%s: node %d row %d: M2 %h, history gives %s (visit sum %d)" what i id iM (string_of_q (m2_x l)) iN);
      let x = cnode !e (n_ i) in
      List.iter (fun (v, y) -> if y <> i_ (get2 O x.r_vis (n_ id) (n_ v)) then disagree "coop_counts" (esite ^ "::record") "visits differ") vis;
      if iN <> i_ (get2 O x.r_vis (n_ id) (n_ ncol.(i))) then disagree "coop_counts" (esite ^ "::record") "visit sum differs";
      if not (closef iR (List.nth x.r_avg id)) then disagree "coop_mean" (esite ^ "::record") "mean differs";
      if not (closef iM (List.nth x.r_m2 id)) then disagree "coop_m2" (esite ^ "::record") "M2 differs" in
    let judge_exp_dump what =
      let iT = next_int r in
      if iT <> !hlen then oracle_fail "coop_welford_exact" (esite ^ "::record") (Printf.sprintf "%s: timesteps=%d but %d records since reset" what iT !hlen);
      for i = 0 to nf - 1 do
        let hi = proj i in
        for id = 0 to sizes.(i) - 1 do
          let vis = List.init ncol.(i) (fun v -> (v, next_int r)) in
          let iN = next_int r in let iR = next_f r in let iM = next_f r in
          judge_row_stats what i id vis iN iR iM hi
        done
      done in
    let judge_model k =
      let (m, tk, ever) = (!models).(k) in
      for i = 0 to nf - 1 do
        let hi = proj i in
        for j = 0 to sizes.(i) - 1 do
          let probs = List.init ncol.(i) (fun _ -> next_f r) in let iR = next_f r in
          if snd !tk (n_ i) (n_ j) then begin
            let l = row_rewards hi (n_ j) in let tot = List.length l in
            List.iteri (fun v p -> let f = q_of_ints (i_ (row_count hi (n_ j) (n_ v))) tot in
                         if not (closef p f) then oracle_fail "coop_sync_is_empirical" (msite ^ "::syncRow") (Printf.sprintf "model %d node %d row %d: P(%d)=%h, empirical %s" k i j v p (string_of_q f))) probs;
            if not (closef iR (mean_x l)) then oracle_fail "coop_sync_is_empirical" (msite ^ "::syncRow") (Printf.sprintf "model %d node %d row %d: reward %h, mean %s" k i j iR (string_of_q (mean_x l)))
          end else if not (Hashtbl.mem ever (i, j)) then begin
            List.iteri (fun v p -> if p <> (if v = 0 then 1.0 else 0.0) then oracle_fail "coop_unvisited_default" (msite ^ "::CooperativeMaximumLikelihoodModel") (Printf.sprintf "model %d node %d row %d never synced but P(%d)=%h" k i j v p)) probs;
            if iR <> 0.0 then oracle_fail "coop_unvisited_default" (msite ^ "::CooperativeMaximumLikelihoodModel") "never-synced row has a reward"
          end;
          List.iteri (fun v p -> if not (closef p (List.nth (List.nth (List.nth !m.cm_tr i) j) v)) then disagree "coop_model_row" (msite ^ "::syncRow") (Printf.sprintf "model %d node %d row %d value %d" k i j v)) probs;
          if not (closef iR (List.nth (List.nth !m.cm_rw i) j)) then disagree "coop_model_reward" (msite ^ "::syncRow") (Printf.sprintf "model %d node %d row %d" k i j)
        done
      done in
    let total i j = List.length (row_rewards (proj i) (n_ j)) in
    let mark k rows = let (_, _, ever) = (!models).(k) in
      List.iter (fun (i, j) -> if total i j > 0 then Hashtbl.replace ever (i, j) ()) rows in
    let track k o = let (_, tk, _) = (!models).(k) in tk := ctrk_step g !tk o in
    let all_rows () = List.concat (List.init nf (fun i -> List.init sizes.(i) (fun j -> (i, j)))) in
    let nops = next_int c in
    for _n = 1 to nops do
      match next c with
      | "r" ->
        let s = List.init nf (fun _ -> next_nat c) in let a = List.init na (fun _ -> next_nat c) in
        let s1 = List.init nf (fun _ -> next_nat c) in let rw = List.init nf (fun _ -> next_q c) in
        let o = CRecord (s, a, s1, rw) in
        if not (cop_ok g o) then failwith "coop: generated record out of range";
        e := cexp_step g !e o; hist_rev := (((s, a), s1), rw) :: !hist_rev; incr hlen; incr nrec;
        let ids = List.init nf (fun i -> cg_id g (n_ i) s a) in
        last_ids := ids;
        let iids = List.init nf (fun _ -> next_int r) in
        List.iteri (fun i id -> if id <> i_ (List.nth ids i) then disagree "coop_getId" "Factored::DDNGraph::getId" (Printf.sprintf "node %d: record() reports row %d, model %d" i id (i_ (List.nth ids i)))) iids;
        pre_rev := o :: !pre_rev; Array.iteri (fun k _ -> track k (C2Exp o)) !models;
        for i = 0 to nf - 1 do
          let id = i_ (List.nth ids i) and v = i_ (List.nth s1 i) in
          let iV = next_int r in let iN = next_int r in let iR = next_f r in let iM = next_f r in
          judge_row_stats "after record" i id [(v, iV)] iN iR iM (proj i)
        done;
        let iT = next_int r in
        if iT <> !hlen then oracle_fail "coop_welford_exact" (esite ^ "::record") "timesteps differ from the number of records"
      | "z" ->
        e := cexp_step g !e CReset; hist_rev := []; hlen := 0; incr nreset;
        pre_rev := CReset :: !pre_rev; Array.iteri (fun k _ -> track k (C2Exp CReset)) !models;
        judge_exp_dump "after reset"
      | "d" -> judge_exp_dump "dump"; Array.iteri (fun k _ -> judge_model k) !models;
        Array.iteri (fun k tbl ->
            for i = 0 to nf - 1 do for j = 0 to sizes.(i) - 1 do
              let irow = List.init ncol.(i) (fun _ -> next_f r) in let iR = next_f r in
              let sum = List.fold_left (+.) 0.0 irow in
              if List.exists (fun p -> not (Float.is_finite p) || p < 0.0) irow || Float.abs (sum -. 1.0) > 1e-9 then
                oracle_fail "thompson_rows_valid" (tsite ^ "::syncRow") (Printf.sprintf "dump: model %d node %d row %d sums to %.12g" k i j sum);
              (match Hashtbl.find_opt tbl (i, j) with
               | Some (row, rw) -> if row <> irow || rw <> iR then disagree "thompson_row_stable" (tsite ^ "::syncRow") (Printf.sprintf "model %d node %d row %d changed without a sync" k i j)
               | None -> disagree "thompson_row_stable" (tsite ^ "::syncRow") "row never synced")
            done done) !tmodels
      | "ctm" | "cty" | "ctp" | "cti" as opk ->
        incr nsync;
        let k, rows = (match opk with
            | "ctm" -> tmodels := Array.append !tmodels [| Hashtbl.create 16 |]; (Array.length !tmodels - 1, all_rows ())
            | "cty" -> let k = next_int c in (k, all_rows ())
            | "cti" -> let k = next_int c in (k, List.mapi (fun i id -> (i, i_ id)) !last_ids)
            | _ -> let k = next_int c in
              let s = List.init nf (fun _ -> next_nat c) in let a = List.init na (fun _ -> next_nat c) in
              (k, List.init nf (fun i -> (i, i_ (cg_id g (n_ i) s a))))) in
        let draws = List.map (fun (i, _) -> let gd = List.init ncol.(i) (fun _ -> next_f r) in let t = next_f r in (gd, t)) rows in
        List.iter2 (fun (i, j) (gd, t) ->
            let irow = List.init ncol.(i) (fun _ -> next_f r) in let iR = next_f r in
            let l = row_rewards (proj i) (n_ j) in
            judge_thompson_row (tsite ^ "::syncRow") (Printf.sprintf "model %d node %d row %d" k i j) gd t irow iR (List.length l) (mean_x l) (m2_x l);
            Hashtbl.replace (!tmodels).(k) (i, j) (irow, iR)) rows draws
      | "cm" -> let flag = next_int c <> 0 in
        models := Array.append !models [| (ref (cml_ctor g !e flag), ref (ctrack g (List.rev !pre_rev) flag []), Hashtbl.create 8) |];
        let k = Array.length !models - 1 in
        if flag then (mark k (all_rows ()); incr nsync); judge_model k
      | "cy" -> let k = next_int c in let (m, _, _) = (!models).(k) in
        m := cml_sync_all g !e !m; track k C2SyncAll; mark k (all_rows ()); incr nsync; judge_model k
      | "cp" -> let k = next_int c in let (m, _, _) = (!models).(k) in
        let s = List.init nf (fun _ -> next_nat c) in let a = List.init na (fun _ -> next_nat c) in
        m := cml_sync_sa g !e !m s a; track k (C2SyncSA (s, a)); mark k (List.init nf (fun i -> (i, i_ (cg_id g (n_ i) s a)))); incr nsync; judge_model k
      | "ci" -> let k = next_int c in let (m, _, _) = (!models).(k) in
        m := cml_sync_ids g !e !m !last_ids; track k (C2SyncIds !last_ids); mark k (List.mapi (fun i id -> (i, i_ id)) !last_ids); incr nsync; judge_model k
      | k -> failwith ("unknown op " ^ k)
    done;
    (!nrec > 1, Printf.sprintf "coop%s%s" (if !nreset > 0 then "+reset" else "") (if !nsync > 0 then "+model" else ""))
  | "fbandit" ->
    let aA = next_nats c in
    let deps = next_list c next_nats in
    let ng = List.length deps and na = List.length aA in
    let sizes = List.map (fun d -> i_ (pspace d aA)) deps in
    let e = ref (fbexp_new aA deps) in
    let hist_rev = ref [] and hlen = ref 0 and nrec = ref 0 and nreset = ref 0 in
    let site = "Factored::Bandit::Experience::record" in
    let judge_arm what gi arm iN iR iM =
      let hi = List.rev_map (fbproj aA deps (n_ gi)) !hist_rev in
      let l = arm_rewards hi (n_ arm) in
      if iN <> List.length l then oracle_fail "fbandit_welford_exact" site (Printf.sprintf "%s: group %d arm %d count %d, history %d" what gi arm iN (List.length l));
      if not (closef iR (mean_x l)) then oracle_fail "fbandit_welford_exact" site (Printf.sprintf "%s: group %d arm %d mean %h, history %s" what gi arm iR (string_of_q (mean_x l)));
      if not (closef iM (m2_x l)) then oracle_fail "fbandit_welford_exact" site (Printf.sprintf "%s: group %d arm %d M2 %h, history %s" what gi arm iM (string_of_q (m2_x l)));
      let b = fbnode !e (n_ gi) in
      if iN <> i_ (List.nth b.b_vis arm) then disagree "fbandit_counts" site "count differs";
      if not (closef iR (List.nth b.b_avg arm)) || not (closef iM (List.nth b.b_m2 arm)) then disagree "fbandit_stats" site "mean/M2 differ" in
    let judge_dump what =
      let iT = next_int r in
      if iT <> !hlen then oracle_fail "fbandit_welford_exact" site (Printf.sprintf "%s: timesteps %d, records %d" what iT !hlen);
      List.iteri (fun gi sz -> for arm = 0 to sz - 1 do
                     let iN = next_int r in let iR = next_f r in let iM = next_f r in judge_arm what gi arm iN iR iM done) sizes in
    let nops = next_int c in
    for _n = 1 to nops do
      match next c with
      | "r" ->
        let a = List.init na (fun _ -> next_nat c) in let rw = List.init ng (fun _ -> next_q c) in
        let o = FRecord (a, rw) in
        if not (fbop_ok aA deps o) then failwith "fbandit: record out of range";
        e := fbexp_step aA deps !e o; hist_rev := (a, rw) :: !hist_rev; incr hlen; incr nrec;
        List.iteri (fun gi d ->
            let arm = i_ (pidx d aA a) in
            let iid = next_int r in
            if iid <> arm then disagree "fbandit_index" "Factored::toIndexPartial" (Printf.sprintf "group %d: record() reports arm %d, model %d" gi iid arm);
            let iN = next_int r in let iR = next_f r in let iM = next_f r in
            judge_arm "after record" gi arm iN iR iM) deps;
        let iT = next_int r in
        if iT <> !hlen then oracle_fail "fbandit_welford_exact" site "timesteps differ from the number of records"
      | "z" -> e := fbexp_step aA deps !e FReset; hist_rev := []; hlen := 0; incr nreset; judge_dump "after reset"
      | "d" -> judge_dump "dump"
      | k -> failwith ("unknown op " ^ k)
    done;
    (!nrec > 1, if !nreset > 0 then "fbandit+reset" else "fbandit")
  | "svt" ->
    let sS = next_int c in let sA = next_int c in
    let nS = n_ sS and nA = n_ sA in
    let tbl = List.init sA (fun _ -> List.init sS (fun _ -> List.init sS (fun _ -> next_nat c))) in
    let e0 = exp_record (exp_new nS nA) O O O (q_of_int 2) in
    let e1 = exp_setVisits e0 tbl in
    let iT = next_int r in
    if iT <> i (e_ts e1) then disagree "setVisitsTable" "MDP::Experience::setVisitsTable" "timesteps";
    for s = 0 to sS - 1 do for a = 0 to sA - 1 do
      let iN = next_int r in let iR = next_q r in let iM = next_q r in
      let iVs = List.init sS (fun _ -> next_int r) in
      let want = List.map i (List.nth (List.nth tbl a) s) in
      if iVs <> want then oracle_fail "setVisits_sums" "MDP::Experience::setVisitsTable" "visits differ from the table that was set";
      if iN <> List.fold_left (+) 0 want then oracle_fail "setVisits_sums" "MDP::Experience::setVisitsTable" (Printf.sprintf "visitsSum(%d,%d)=%d is not the row sum" s a iN);
      if iN <> i (nN e1 (n_ s) (n_ a)) then disagree "setVisitsTable" "MDP::Experience::setVisitsTable" "sum";
      if not (q_eq iR (rw e1 (n_ s) (n_ a))) || not (q_eq iM (m2 e1 (n_ s) (n_ a))) then disagree "setVisitsTable" "MDP::Experience::setVisitsTable" "reward/M2 touched"
    done done;
    (true, "svt")
  | "bandit" ->
    let sA = next_int c in let nops = next_int c in
    let b = ref (bexp_new (n_ sA)) in
    let per : q list array = Array.make sA [] in
    let tsteps = ref 0 in
    for _n = 1 to nops do
      (match next c with
       | "r" -> let a = next_int c in let rew = next_q c in
         b := bexp_record !b (n_ a) rew; per.(a) <- rew :: per.(a); incr tsteps
       | "z" -> b := bexp_reset !b; Array.fill per 0 sA []; tsteps := 0
       | k -> failwith ("unknown op " ^ k));
      let iT = next_int r in
      if iT <> !tsteps then oracle_fail "bandit_welford_exact" "Bandit::Experience::record" "timesteps";
      for a = 0 to sA - 1 do
        let iN = next_int r in let iR = next_q r in let iM = next_q r in
        if iN <> List.length per.(a) then oracle_fail "bandit_welford_exact" "Bandit::Experience::record" "visit count";
        if not (close iR (mean_x per.(a))) then oracle_fail "bandit_welford_exact" "Bandit::Experience::record" (Printf.sprintf "arm %d mean %s vs %s" a (string_of_q iR) (string_of_q (mean_x per.(a))));
        if not (close iM (m2_x per.(a))) then oracle_fail "bandit_welford_exact" "Bandit::Experience::record" (Printf.sprintf "arm %d M2" a);
        if iN <> i (List.nth !b.b_vis a) then disagree "bandit_counts" "Bandit::Experience::record" "count";
        if not (close iR (List.nth !b.b_avg a)) || not (close iM (List.nth !b.b_m2 a)) then disagree "bandit_stats" "Bandit::Experience::record" "mean/M2"
      done
    done;
    (nops > 1, "bandit")
  | k -> failwith ("unknown case kind " ^ k)

let () = main_loop judge
