(* ml/C06/driver.ml — judge for property C06.
   O (oracle): after every call the implementation's dumped getters must describe a valid model
   (Spec.valid_model_kb / valid_pmodel_kb), a throwing call must leave the dump unchanged and
   throw std::invalid_argument, valid inputs must not be rejected, stored tables must equal the
   supplied ones.  C (correspondence): same accept/reject decision and same tables as the
   extracted state machine of the *repaired* code (fixed = true). *)
open Model
open Vio

(* ---------- conversions ---------- *)
let xq_of_xnum = function Fin q -> XFin q | NaN -> XNaN | PInf -> XPInf | NInf -> XNInf
let next_xq c = xq_of_xnum (next_x c)
let xq_eq a b = match a, b with
  | XFin x, XFin y -> q_eq x y | XPInf, XPInf | XNInf, XNInf | XNaN, XNaN -> true | _ -> false
let str_xq = function XFin q -> string_of_q q | XPInf -> "inf" | XNInf -> "-inf" | XNaN -> "nan"

let rec take n l = if n = 0 then [] else match l with [] -> failwith "reshape: short" | x :: t -> x :: take (n - 1) t
let rec drop n l = if n = 0 then l else match l with [] -> failwith "reshape: short" | _ :: t -> drop (n - 1) t
let rec chunks n l = if l = [] then [] else take n l :: chunks n (drop n l)
let reshape2 n1 n2 flat =
  if List.length flat <> n1 * n2 then failwith "reshape2: size mismatch";
  if n2 = 0 then List.init n1 (fun _ -> []) else chunks n2 flat
let reshape3 n1 n2 n3 flat =
  if List.length flat <> n1 * n2 * n3 then failwith "reshape3: size mismatch";
  List.map (fun m -> reshape2 n2 n3 m) (if n2 * n3 = 0 then List.init n1 (fun _ -> []) else chunks (n2 * n3) flat)

let eps = q_of_ints 1 1000000
let tiny = q_of_ints 1 1000000000          (* decision margin 1e-9 *)

(* a decision |sum-1| <= eps or |x| <= eps whose exact margin is tiny may legitimately differ
   between the double computation and the exact model *)
let row_ill (r : xq list) =
  if List.exists (function XFin _ -> false | _ -> true) r then false
  else begin
    let s = List.fold_left (fun a x -> match x with XFin q -> q_add a q | _ -> a) q_zero r in
    let sa = List.fold_left (fun a x -> match x with XFin q -> q_add a (q_abs q) | _ -> a) q_zero r in
    let near v = q_lt (q_abs (q_sub (q_abs (q_sub v q_one)) eps)) tiny in
    near s || near sa
  end
let entry_ill (x : xq) = match x with
  | XFin q -> q_lt (q_abs (q_sub (q_abs q) eps)) (q_of_ints 1 1000000000000) | _ -> false
let tab_ill ~sparse (t : xq list list list) =
  List.exists (List.exists (fun r -> row_ill r || (sparse && List.exists entry_ill r))) t

(* ---------- classes ---------- *)
type cls = { sparse : bool; pomdp : bool; name : string; base : string }
let cls_of = function
  | "md" -> { sparse = false; pomdp = false; name = "MDP::Model"; base = "MDP::Model" }
  | "ms" -> { sparse = true; pomdp = false; name = "MDP::SparseModel"; base = "MDP::SparseModel" }
  | "pd" -> { sparse = false; pomdp = true; name = "POMDP::Model"; base = "MDP::Model" }
  | "ps" -> { sparse = true; pomdp = true; name = "POMDP::SparseModel"; base = "MDP::SparseModel" }
  | k -> failwith ("unknown class " ^ k)
let kind_of cl = if cl.sparse then Sparse else Dense

(* ---------- dumps ---------- *)
type dump = { toks : string list; m : model option; p : pmodel option }

let read_dump cl (r : cursor) : dump =
  let start = r.pos in
  let tag = next r in
  if tag = "NONE" then { toks = ["NONE"]; m = None; p = None }
  else begin
    if tag <> "D" then failwith ("dump expected, got " ^ tag);
    let s = next_int r in let a = next_int r in let d = next_xq r in
    let tf = next_list r next_xq in
    let rf = next_list r next_x in
    let rq = List.map (function Fin q -> q | _ -> oracle_fail "rewards_finite" (cl.name ^ "::getRewardFunction") "non-finite stored reward") rf in
    if List.length tf <> a * s * s then oracle_fail "setter_validate_then_commit" (cl.name ^ "::getTransitionFunction") "transition table has wrong dimensions";
    if List.length rq <> s * a then oracle_fail "setter_validate_then_commit" (cl.name ^ "::getRewardFunction") "reward table has wrong dimensions";
    let m = { mS = nat_of_int s; mA = nat_of_int a; mT = reshape3 a s s tf; mR = reshape2 s a rq; mD = d } in
    let p =
      if cl.pomdp then begin
        let o = next_int r in
        let obf = next_list r next_xq in
        if List.length obf <> a * s * o then oracle_fail "setter_validate_then_commit" (cl.name ^ "::getObservationFunction") "observation table has wrong dimensions";
        Some { pM = m; pO = nat_of_int o; pOb = reshape3 a s o obf }
      end else None in
    let toks = Array.to_list (Array.sub r.toks start (r.pos - start)) in
    { toks; m = Some m; p }
  end

(* ---------- ops ---------- *)
(* parsed op: the model-side op (needs current dimensions for setters), plus bookkeeping *)
type rsrc =
  | RNone                                  (* the call does not set rewards: they must stay as they were *)
  | RZero                                  (* (s,a,discount) constructor *)
  | RMat of q list list                    (* setRewardFunction((Sparse)Matrix2D) *)
  | RTab of q list list list * xq list list list option
      (* naive [s][a][s1] reward table, taken under the object's own (dumped) transitions (None) or
         under the supplied [s][a][s1] transitions of a copy constructor's source (Some t) *)
  | RConv                                  (* round trip through the other representation *)

type pop_info = {
  opname : string;
  rsrc : rsrc;
  mop : op option;            (* MDP-level op (ctor or setter), if any *)
  pop : pop option;           (* POMDP-level op *)
  ill : bool;
  site : string;
  tables : (string * xq list list list) list;   (* probability tables supplied, with the overload used *)
  disc : xq option;
}

let dims_of (st_m : model option) = match st_m with
  | Some m -> (int_of_nat m.mS, int_of_nat m.mA) | None -> (0, 0)

let read_base_ctor cl (c : cursor) (k : string) : op * bool * (string * xq list list list) list * xq * rsrc =
  let s = next_int c in let a = next_int c in let d = next_xq c in
  if k = "ctor3" then (Ctor3 (nat_of_int s, nat_of_int a, d), false, [], d, RZero)
  else begin
    let t = reshape3 s a s (next_list c next_xq) in
    let r = reshape3 s a s (next_list c next_q) in
    let ill = tab_ill ~sparse:cl.sparse t
              || (cl.sparse && List.exists (List.exists (List.exists (fun x -> entry_ill (XFin x)))) r) in
    if k = "ctort" then (CtorTables (nat_of_int s, nat_of_int a, t, r, d), ill, [("t", t)], d, RTab (r, None))
    else (CtorCopy { gS = nat_of_int s; gA = nat_of_int a; gD = d; gT = t; gR = r }, ill, [("copy", t)], d, RTab (r, Some t))
  end

let read_op cl (c : cursor) (st_m : model option) (st_o : int) : pop_info =
  let k = next c in
  let (s, a) = dims_of st_m in
  let have = st_m <> None in
  let flat_x () = next_list c next_xq in
  let sh3 n1 n2 n3 f = if have then reshape3 n1 n2 n3 f else [] in
  let mk ?(rsrc = RNone) opname mop pop ill site tables disc = { opname; rsrc; mop; pop; ill; site; tables; disc } in
  let lift (o : op) = if cl.pomdp then (None, Some (PBase o)) else (Some o, None) in
  match k with
  | "ctor3" | "ctort" | "ctorc" ->
    let (o, ill, tabs, d, rs) = read_base_ctor cl c k in
    let site = cl.name ^ "::" ^ (match k with "ctor3" -> "Model(s,a,discount)" | "ctort" -> "Model(s,a,t,r,d)" | _ -> "Model(const_M&)") in
    mk ~rsrc:rs k (Some o) None ill site tabs (Some d)
  | "pctor" | "pctorob" ->
    let no = next_int c in
    let obflat = if k = "pctorob" then flat_x () else [] in
    let bk = next c in
    let (o, ill, tabs, d, rs) = read_base_ctor cl c bk in
    let (bs, ba) = (match o with
        | Ctor3 (s, a, _) | CtorTables (s, a, _, _, _) -> (int_of_nat s, int_of_nat a)
        | CtorCopy g -> (int_of_nat g.gS, int_of_nat g.gA) | _ -> (0, 0)) in
    let site = cl.name ^ "::Model(o," ^ (if k = "pctorob" then "of," else "") ^ bk ^ ")" in
    if k = "pctor" then mk ~rsrc:rs (k ^ "+" ^ bk) None (Some (PCtor (nat_of_int no, o))) ill site tabs (Some d)
    else begin
      let obf = reshape3 bs ba no obflat in
      mk ~rsrc:rs (k ^ "+" ^ bk) None (Some (PCtorOb (nat_of_int no, obf, o))) (ill || tab_ill ~sparse:cl.sparse obf) site (("t", obf) :: tabs) (Some d)
    end
  | "pctorc" ->
    let no = next_int c in
    let obflat = flat_x () in
    let (o, ill, tabs, d, rs) = read_base_ctor cl c "ctorc" in
    let g = (match o with CtorCopy g -> g | _ -> failwith "pctorc") in
    let obf = reshape3 (int_of_nat g.gS) (int_of_nat g.gA) no obflat in
    mk ~rsrc:rs k None (Some (PCtorCopy { gpM = g; gpO = nat_of_int no; gpOb = obf }))
      (ill || tab_ill ~sparse:cl.sparse obf) (cl.name ^ "::Model(const_PM&)") (("copy", obf) :: tabs) (Some d)
  | "ctorlib" | "pctorlib" ->
    (* converting constructor from a library model built through NO_CHECK (arbitrary tables/discount) *)
    let _sk = next c in
    let no = if k = "pctorlib" then next_int c else 0 in
    let obflat = if k = "pctorlib" then flat_x () else [] in
    let s' = next_int c in let a' = next_int c in let d = next_xq c in
    let t = reshape3 a' s' s' (next_list c next_xq) in          (* [a][s][s1] *)
    let rm = reshape2 s' a' (next_list c next_q) in             (* [s][a] *)
    let src = { mS = nat_of_int s'; mA = nat_of_int a'; mT = t; mR = rm; mD = d } in
    let g = gmodel_of src in
    let ill = tab_ill ~sparse:cl.sparse t || (cl.sparse && List.exists (List.exists (fun x -> entry_ill (XFin x))) rm) in
    let site = cl.name ^ "::Model(const_" ^ (if k = "pctorlib" then "PM" else "M") ^ "&)" in
    if k = "ctorlib" then mk ~rsrc:(RTab (g.gR, Some g.gT)) k (Some (CtorCopy g)) None ill site [("copy", g.gT)] (Some d)
    else begin
      let ob = reshape3 a' s' no obflat in                      (* [a][s1][o] *)
      let obf = transpose01 (nat_of_int a') (nat_of_int s') ob in   (* [s1][a][o] *)
      mk ~rsrc:(RTab (g.gR, Some g.gT)) k None (Some (PCtorCopy { gpM = g; gpO = nat_of_int no; gpOb = obf }))
        (ill || tab_ill ~sparse:cl.sparse ob) site [("copy", obf); ("copy", g.gT)] (Some d)
    end
  | "conv" ->
    mk ~rsrc:RConv k None None false (cl.name ^ "::Model(const_M&)") [("copy", [])] None
  | "setd" ->
    let d = next_xq c in
    let (mo, po) = lift (SetDiscount d) in
    mk k mo po false (cl.base ^ "::setDiscount") [] (Some d)
  | "sett3" ->
    let t = sh3 s a s (flat_x ()) in
    let (mo, po) = lift (SetT3 t) in
    mk k mo po (tab_ill ~sparse:cl.sparse t) (cl.base ^ "::setTransitionFunction(T)") [("t", t)] None
  | "settm" ->
    let t = sh3 a s s (flat_x ()) in
    let (mo, po) = lift (SetTM t) in
    mk k mo po (tab_ill ~sparse:cl.sparse t) (cl.base ^ "::setTransitionFunction(Matrix3D)") [((if cl.sparse then "s" else "m"), t)] None
  | "setr3" ->
    let f = next_list c next_q in
    let r = if have then reshape3 s a s f else [] in
    let (mo, po) = lift (SetR3 r) in
    mk ~rsrc:(RTab (r, None)) k mo po false (cl.base ^ "::setRewardFunction(R)") [] None
  | "setrm" ->
    let f = next_list c next_q in
    let r = if have then reshape2 s a f else [] in
    let (mo, po) = lift (SetRM r) in
    mk ~rsrc:(RMat r) k mo po false (cl.base ^ "::setRewardFunction(Matrix2D)") [] None
  | "seto3" ->
    let t = sh3 s a st_o (flat_x ()) in
    mk k None (Some (PSetO3 t)) (tab_ill ~sparse:cl.sparse t) (cl.name ^ "::setObservationFunction(O)") [("t", t)] None
  | "setom" ->
    let t = sh3 a s st_o (flat_x ()) in
    mk k None (Some (PSetOM t)) (tab_ill ~sparse:cl.sparse t) (cl.name ^ "::setObservationFunction(Matrix3D)") [((if cl.sparse then "s" else "m"), t)] None
  | k -> failwith ("unknown op " ^ k)

(* ---------- comparisons ---------- *)
let small_q (x : q) =   (* few-bit dyadic: products and sums stay exact in double arithmetic *)
  let x = vio_qred x in
  let rec bits p = match p with XH -> 1 | XO p' | XI p' -> 1 + bits p' in
  bits (vio_qden x) <= 20 && (match vio_qnum x with Z0 -> true | Zpos p | Zneg p -> bits p <= 20)

let tab3_eq (a : xq list list list) (b : xq list list list) =
  List.length a = List.length b && List.for_all2 (fun x y ->
      List.length x = List.length y && List.for_all2 (fun r1 r2 ->
          List.length r1 = List.length r2 && List.for_all2 xq_eq r1 r2) x y) a b

(* sparse classes store 0 for a reward within 1e-6 of 0: when the exact value is within 1e-9 of that
   threshold the double computation may legitimately fall on the other side *)
let near_eps v = q_lt (q_abs (q_sub (q_abs v) eps)) tiny
let mat_cmp ?(sparse = false) ~exact (a : q list list) (b : q list list) =
  List.length a = List.length b && List.for_all2 (fun r1 r2 ->
      List.length r1 = List.length r2 &&
      List.for_all2 (fun x y ->
          (if exact then q_eq x y else q_close ~atol:(q_of_ints 1 1000000000000) x y)
          || (sparse && ((q_eq x q_zero && near_eps y) || (q_eq y q_zero && near_eps x)))) r1 r2) a b

let is_ok_res = function Ok -> true | _ -> false
let str_res = function Ok -> "Ok" | Throw -> "Throw" | NoObj -> "NoObj" | Pre -> "Pre"


(* ---------- O: "expected rewards equal the supplied ones" ---------- *)
let sum_abs l = List.fold_left (fun a x -> q_add a (q_abs x)) q_zero l
let max_q l = List.fold_left q_max q_zero l
let reward_oracle (cl : cls) (info : pop_info) (dm : model) (prev_m : model option) : unit =
  let k = kind_of cl in
  let fail d = oracle_fail "setter_effect" info.site d in
  let rounding = q_of_ints 1 1000000000 in
  let slack scale = q_mul (q_add rounding (if cl.sparse then eps else q_zero)) (q_add q_one scale) in
  let s = int_of_nat dm.mS and a = int_of_nat dm.mA in
  match info.rsrc with
  | RNone ->
    (match prev_m with
     | Some pm -> if not (mat_cmp ~exact:true pm.mR dm.mR) then fail "stored rewards changed by a call that does not set rewards"
     | None -> ())
  | RZero ->
    if not (List.for_all (List.for_all (fun x -> q_eq x q_zero)) dm.mR) then fail "rewards of a freshly constructed (s,a,discount) model are not 0"
  | RMat r ->
    if not (mat_cmp ~exact:true r dm.mR) then fail "stored rewards differ from the supplied reward matrix"
  | RTab (r, src) ->
    let mt = (match src with None -> dm.mT | Some t -> transpose01 dm.mS dm.mA t) in
    let scale = max_q (List.concat_map (List.map sum_abs) r) in
    if not (rewards_okb k (slack scale) { dm with mT = mt } r) then
      fail "stored R(s,a) differs from sum_s1 T(s,a,s1) * r(s,a,s1) of the supplied tables"
  | RConv ->
    (match prev_m with
     | Some pm ->
       (* the source is the previous object seen through getExpectedReward(s,a,s1) = R(s,a); two copy
          constructors in a row: row masses are within 1e-6 of 1 each *)
       let r = List.map (fun row -> List.map (fun x -> List.init s (fun _ -> x)) row) pm.mR in
       ignore a;
       let scale = max_q (List.concat_map (List.map sum_abs) r) in
       let tol = q_add (slack scale) (q_mul (q_of_ints 4 1000000) (q_add q_one scale)) in
       if not (rewards_okb Sparse tol { dm with mT = pm.mT } r) then
         fail "rewards not preserved by the conversion round trip"
     | None -> ())

(* ---------- the judge for op sequences ---------- *)
let judge_seq (cl : cls) (c : cursor) (r : cursor) : bool * string =
  let k = kind_of cl in
  let nops = next_int c in
  let st_m : model option ref = ref None in      (* model-side state (MDP classes) *)
  let st_p : pmodel option ref = ref None in     (* model-side state (POMDP classes) *)
  let prev : dump ref = ref { toks = ["NONE"]; m = None; p = None } in
  let accepted = ref 0 and thrown = ref 0 and ill = ref false in
  let exact_r = ref true in
  (try
    for _i = 1 to nops do
      let cur_m = if cl.pomdp then (match !st_p with Some p -> Some p.pM | None -> None) else !st_m in
      let cur_o = (match !st_p with Some p -> int_of_nat p.pO | None -> 0) in
      let info = read_op cl c cur_m cur_o in
      let status = next r in
      let exn = if status = "THROW" then next r else "" in
      if info.ill then (ill := true; raise Exit);
      let d = read_dump cl r in
      (* ---------------- O: oracle on the implementation's own outputs ---------------- *)
      (match status with
       | "OK" ->
         let dm = (match d.m with Some m -> m | None -> oracle_fail "setter_validate_then_commit" info.site "accepted call left no object") in
         (* discount *)
         if not (disc_okb dm.mD) then begin
           if info.opname = "ctor3" || info.opname = "pctor+ctor3" || info.opname = "pctorob+ctor3"
           then oracle_fail "ctor_validates_discount" (cl.base ^ "::Model(s,a,discount)") ("stored discount " ^ str_xq dm.mD ^ " not in (0,1]")
           else if List.mem info.opname ["ctorc"; "pctorc"; "ctorlib"; "pctorlib"; "conv"; "pctor+ctorc"; "pctorob+ctorc"]
           then oracle_fail "conversion_validates_discount" info.site ("converted model has discount " ^ str_xq dm.mD ^ " not in (0,1]")
           else if dm.mD = XNaN then oracle_fail "setDiscount_rejects_nan" (cl.base ^ "::setDiscount") "NaN accepted as a discount"
           else oracle_fail "setDiscount_iff" (cl.base ^ "::setDiscount") ("accepted discount " ^ str_xq dm.mD ^ " not in (0,1]")
         end;
         (* tables: the guaranteed (kind-dependent) tolerance must always hold *)
         let weak = if cl.pomdp then (match d.p with Some p -> valid_pmodel_k0b k k p | None -> false) else valid_model_k0b k dm in
         if not weak then oracle_fail "setter_validate_then_commit" info.site "accepted call left rows that are not distributions (beyond the sparse tolerance)";
         (* the property's own notion (epsS, entries >= 0): may fail only through the sparse findings *)
         let strict = if cl.pomdp then (match d.p with Some p -> valid_pmodel_kb Dense Dense p | None -> false) else valid_model_kb Dense dm in
         if not strict then begin
           let neg = List.exists (fun (_, t) -> List.exists (List.exists (List.exists (fun x -> match x with XFin q -> q_lt q q_zero | _ -> false))) t) info.tables in
           if neg then oracle_fail "isProbability_sparse_nonneg" "isProbability(SparseMatrix2D)" "a row with a negative entry was accepted and stored"
           else begin
             (* the template setters validate the row and then drop entries <= 1e-6; name the setter that did it *)
             let site = if valid_model_kb Dense dm then "POMDP::SparseModel::setObservationFunction(O)"
               else "MDP::SparseModel::setTransitionFunction(T)" in
             oracle_fail "sparse_rows_within_epsS" site ("stored row sum differs from 1 by more than 1e-6 after dropping small entries (call: " ^ info.site ^ ")")
           end
         end
         ;
         reward_oracle cl info dm !prev.m
       | "THROW" ->
         if exn <> "invalid_argument" then oracle_fail "exception_type" info.site ("threw " ^ exn);
         if d.toks <> !prev.toks then oracle_fail "setter_validate_then_commit" info.site "object changed by a call that threw";
         (* a rejected input must really be invalid (spec-side decision, independent of the model) *)
         let disc_fine = (match info.disc with Some x -> disc_okb x | None -> true) in
         let tabs_fine = List.for_all (fun (ov, t) ->
             match ov with
             | "t" ->
               (* sparse template setters (repaired): the row must still be a distribution after the
                  entries within 1e-6 of 0 are dropped *)
               prob_tableb t && ((not cl.sparse) || prob_tableb (List.map (List.map (List.map drop_small)) t))
             | "m" | "s" -> prob_tableb t
             | _ -> false (* copy constructors: own rule, judged by C only *)) info.tables in
         let has_copy = List.exists (fun (ov, _) -> ov = "copy") info.tables in
         if disc_fine && tabs_fine && not has_copy then
           oracle_fail "isProbability_iff" info.site "a valid input was rejected"
       | "NOOBJ" ->
         if d.toks <> ["NONE"] then oracle_fail "setter_validate_then_commit" info.site "object appeared"
       | s -> failwith ("unknown status " ^ s));
      (* ---------------- C: the extracted state machine ---------------- *)
      let res =
        if cl.pomdp then begin
          let po = (match info.pop with Some x -> x | None -> failwith "MDP-level constructor used on a POMDP class") in
          let (st', res) = pstep true k k !st_p po in
          st_p := st'; res
        end else if info.opname = "conv" then begin
          let other = if cl.sparse then Dense else Sparse in
          (match !st_m with
           | None -> NoObj
           | Some m ->
             (match convert true other m with
              | (Some m1, _) ->
                (match convert true k m1 with
                 | (Some m2, _) -> st_m := Some m2; Ok
                 | _ -> Throw)
              | _ -> Throw))
        end else begin
          let mo = (match info.mop with Some x -> x | None -> failwith "POMDP-level op used on an MDP class") in
          let (st', res) = step true k !st_m mo in
          st_m := st'; res
        end in
      if res = Pre then failwith "case violates a documented precondition (generator bug)";
      let impl_res = (match status with "OK" -> "Ok" | "THROW" -> "Throw" | _ -> "NoObj") in
      if str_res res <> impl_res then
        disagree "accept_reject" info.site ("model " ^ str_res res ^ " impl " ^ impl_res);
      (* same tables *)
      let model_m = if cl.pomdp then (match !st_p with Some p -> Some p.pM | None -> None) else !st_m in
      (match model_m, d.m with
       | None, None -> ()
       | Some mm, Some dm ->
         if int_of_nat mm.mS <> int_of_nat dm.mS || int_of_nat mm.mA <> int_of_nat dm.mA then disagree "dims" info.site "S/A differ";
         if not (xq_eq mm.mD dm.mD) then disagree "discount" info.site ("model " ^ str_xq mm.mD ^ " impl " ^ str_xq dm.mD);
         if not (tab3_eq mm.mT dm.mT) then disagree "transitions" info.site "stored transition tables differ";
         exact_r := !exact_r && List.for_all (List.for_all small_q) mm.mR
                    && List.for_all (List.for_all (List.for_all (function XFin q -> small_q q | _ -> false))) mm.mT;
         if not (mat_cmp ~sparse:cl.sparse ~exact:!exact_r mm.mR dm.mR) then
           disagree "rewards" info.site (Printf.sprintf "stored reward tables differ after op %s: model [%s] impl [%s]" info.opname
                                           (String.concat "; " (List.map str_qs mm.mR)) (String.concat "; " (List.map str_qs dm.mR)))
       | _ -> disagree "object_presence" info.site "model and implementation disagree on whether an object exists");
      (match !st_p, d.p with
       | Some mp, Some dp ->
         if int_of_nat mp.pO <> int_of_nat dp.pO then disagree "dims" info.site "O differs";
         if not (tab3_eq mp.pOb dp.pOb) then disagree "observations" info.site "stored observation tables differ"
       | _ -> ());
      if is_ok_res res then incr accepted else if res = Throw then incr thrown;
      prev := d
    done
  with Exit -> ());
  if !ill then (false, "ill_conditioned")
  else (!accepted > 0 && !thrown > 0, Printf.sprintf "%s:%s" cl.name (if !thrown > 0 then "with_throw" else "all_ok"))

(* ---------- single validator calls ---------- *)
let judge_isprob (c : cursor) (r : cursor) : bool * string =
  let ov = next c in
  let rows = next_int c in let cols = next_int c in
  let t = reshape3 1 rows cols (next_list c next_xq) in
  let impl = (next_int r = 1) in
  if tab_ill ~sparse:false t then (false, "ill_conditioned") else begin
    let site = "isProbability(" ^ ov ^ ")" in
    let m2 = List.hd t in
    let sparse_ov = (ov = "s2" || ov = "s3") in
    let spec = prob_tableb t in
    (* O: the validator's verdict against the spec-side decision *)
    if impl && not spec then begin
      if sparse_ov && sprob_tableb t
      then oracle_fail "isProbability_sparse_nonneg" "isProbability(SparseMatrix2D)" "accepts a row with a negative entry"
      else oracle_fail "isProbability_iff" site "accepts a table that is not a distribution"
    end;
    if (not impl) && spec then oracle_fail "isProbability_iff" site "rejects a valid distribution";
    let model = (match ov with
        | "t1" -> isProbability1 (List.hd m2) | "t2" -> isProbability2 m2 | "t3" -> isProbability3 t
        | "m2" -> isProbabilityM2 m2 | "m3" -> isProbabilityM3 t
        | "s2" | "s3" -> isProbabilityS3f true t
        | _ -> failwith "overload") in
    if model <> impl then disagree "isProbability" site "model and implementation differ";
    (not impl, "isprob:" ^ ov)
  end


(* ---------- AMDP discretisation ---------- *)
let judge_amdp (c : cursor) (r : cursor) : bool * string =
  let v = next c in
  let sparse = (v = "s" || v = "ss") in
  let k = if sparse then Sparse else Dense in
  let site = if sparse then "AMDP::discretizeSparse" else "AMDP::discretizeDense" in
  let s1 = next_int r in let a = next_int r in let d = next_xq r in
  let t' = reshape3 a s1 s1 (next_list r next_xq) in
  let r' = reshape2 s1 a (List.map xq_of_xnum (next_list r next_x)) in
  let cs = next_list r (fun r -> let cs = next_nat r in let ca = next_nat r in let cs1 = next_nat r in
                         let p = next_q r in let rw = next_q r in
                         { c_s = cs; c_a = ca; c_s1 = cs1; c_p = p; c_r = rw }) in
  (* hypothesis of amdp_valid_tables (indices in range, mass >= 0), checked on the recomputed contributions *)
  List.iter (fun c -> if not (contrib_okb (nat_of_int s1) (nat_of_int a) c) then
                oracle_fail "amdp_contrib_ok" site "contribution out of range or negative") cs;
  let near x = q_lt (q_abs (q_sub (q_abs x) eps)) (q_of_ints 1 1000000000000) in
  if List.exists (fun c -> near c.c_p || (sparse && near c.c_r)) cs then (false, "ill_conditioned") else begin
  (* O: the derived model is a valid finite MDP with finite rewards *)
  List.iter (List.iter (fun x -> match x with XFin _ -> () | _ ->
      oracle_fail "amdp_valid" site ("reward " ^ str_xq x ^ " in the derived model (bucket no sampled belief falls in)"))) r';
  let rq = List.map (List.map (function XFin q -> q | _ -> q_zero)) r' in
  let dm = { mS = nat_of_int s1; mA = nat_of_int a; mT = t'; mR = rq; mD = d } in
  if not (valid_model_kb Dense dm) then oracle_fail "amdp_valid" site "derived model is not a valid MDP";
  (* O: every row / reward equals the value normalised by the ACCUMULATED mass of the counted contributions
     (Spec.amdp_spec_okb: filtered sums over the contribution list, no tables) *)
  let tq = List.map (List.map (List.map (function XFin q -> q | _ -> q_zero))) t' in
  (* contributions that do not count (|p| <= 1e-6) take part in none of the filtered sums: drop them once *)
  let counted = List.filter c_counts cs in
  if not (amdp_spec_okb k (q_of_ints 1 1000000000) (nat_of_int s1) (nat_of_int a) counted tq rq) then
    oracle_fail "amdp_valid" site "a derived row or reward is not the accumulated-mass-normalised value of the sampled contributions";
  (* C: accumulation + final normalisation of the repaired code on the same contributions *)
  let (tacc, _) = amdp_accumulate k (nat_of_int s1) (nat_of_int a) cs in
  let (mt, mr) = amdp_derive true k (nat_of_int s1) (nat_of_int a) cs in
  let close x y = q_close ~atol:(q_of_ints 1 1000000000000) ~rtol:(q_of_ints 1 1000000000000) x y in
  let ok_t = List.for_all2 (fun ma ia -> List.for_all2 (fun r1 r2 -> List.for_all2 (fun x y -> match y with XFin q -> close x q | _ -> false) r1 r2) ma ia) mt t' in
  if not ok_t then disagree "amdp_derive" site "normalised transition rows differ";
  let ok_r = List.for_all2 (fun r1 r2 -> List.for_all2 (fun x y -> match x, y with XFin p, XFin q -> close p q | _ -> false) r1 r2) mr r' in
  if not ok_r then disagree "amdp_derive" site "normalised rewards differ";
  let unvisited = List.exists (List.exists (List.for_all (fun x -> q_eq x q_zero))) tacc in
  (unvisited, "amdp:" ^ v) end


(* ---------- CooperativeModel / DDNGraph::push ---------- *)
let judge_coop (c : cursor) (r : cursor) : bool * string =
  let sS = next_nats c in let sA = next_nats c in
  let npush = next_int c in
  let g = ref { cg_S = sS; cg_A = sA; cg_parents = [] } in
  let rejected_push = ref 0 in
  for _i = 1 to npush do
    let agents = next_nats c in
    let feats = next_list c next_nats in
    let ps = { cp_agents = agents; cp_features = feats } in
    let impl = next r in let cnt = next_int r in
    let before = List.length (!g).cg_parents in
    let full = before = List.length sS in
    let site = "DDNGraph::push" in
    (* O: spec-side decision (SpecCoop.cps_validb), independent of the code's check order *)
    let okspec = cps_validb sS sA ps in
    (match impl with
     | "POK" ->
       if full then oracle_fail "push_validate_then_commit" site "accepted a node on a complete graph";
       if not okspec then oracle_fail "push_validate_then_commit" site "accepted a malformed parent set";
       if cnt <> before + 1 then oracle_fail "push_validate_then_commit" site "accepted node not appended"
     | "PRT" ->
       if not full then oracle_fail "push_validate_then_commit" site "runtime_error on an incomplete graph";
       if cnt <> before then oracle_fail "push_validate_then_commit" site "graph changed by a push that threw"
     | "PINV" ->
       if full then oracle_fail "push_validate_then_commit" site "invalid_argument instead of runtime_error on a complete graph";
       if okspec then oracle_fail "push_validate_then_commit" site "rejected a valid parent set";
       if cnt <> before then oracle_fail "push_validate_then_commit" site "graph changed by a push that threw"
     | s -> failwith ("unknown push status " ^ s));
    (* C *)
    let (g', res) = cpush !g ps in
    let mres = (match res with POk -> "POK" | PRuntimeError -> "PRT" | PInvalidArgument -> "PINV") in
    if mres <> impl then disagree "cpush" site ("model " ^ mres ^ " impl " ^ impl);
    if impl <> "POK" then incr rejected_push;
    g := g'
  done;
  let read_coop_dump (r : cursor) : (string list * coop option) =
    let start = r.pos in
    let tag = next r in
    if tag = "NONE" then (["NONE"], None) else begin
      let d = next_xq r in
      let dS = next_nats r in let dA = next_nats r in
      let np = next_int r in
      let pss = List.init np (fun _ -> let ag = next_nats r in let f = next_list r next_nats in { cp_agents = ag; cp_features = f }) in
      let nt = next_int r in
      let ts = List.init nt (fun _ -> let rows = next_int r in let cols = next_int r in
                              let data = next_list r next_xq in
                              { cm_rows = nat_of_int rows; cm_cols = nat_of_int cols; cm_data = reshape2 rows cols data }) in
      let nr = next_int r in
      let rs = List.init nr (fun _ -> let t = next_nats r in let at = next_nats r in let rows = next_nat r in let cols = next_nat r in
                              { cb_tag = t; cb_atag = at; cb_rows = rows; cb_cols = cols }) in
      let toks = Array.to_list (Array.sub r.toks start (r.pos - start)) in
      (toks, Some { co_g = { cg_S = dS; cg_A = dA; cg_parents = pss }; co_T = ts; co_R = rs; co_d = d })
    end in
  let nops = next_int c in
  let st : coop option ref = ref None in
  let prev = ref ["NONE"] in
  let acc = ref 0 and thr = ref 0 in
  for _i = 1 to nops do
    let k = next c in
    let (op, site, input_ok, ill) = (match k with
      | "cctor" ->
        let d = next_xq c in
        let ts = next_list c (fun c -> let rows = next_int c in let cols = next_int c in
                               let data = next_list c next_xq in
                               { cm_rows = nat_of_int rows; cm_cols = nat_of_int cols; cm_data = reshape2 rows cols data }) in
        let rs = next_list c (fun c -> let t = next_nats c in let at = next_nats c in let rows = next_nat c in let cols = next_nat c in
                               { cb_tag = t; cb_atag = at; cb_rows = rows; cb_cols = cols }) in
        let co = { co_g = !g; co_T = ts; co_R = rs; co_d = d } in
        (CoCtor co, "CooperativeModel::CooperativeModel", valid_coopb co, List.exists (fun m -> List.exists row_ill m.cm_data) ts)
      | "csetd" -> let d = next_xq c in (CoSetDiscount d, "CooperativeModel::setDiscount", disc_okb d, false)
      | k -> failwith ("unknown coop op " ^ k)) in
    let status = next r in
    let exn = if status = "THROW" then next r else "" in
    if ill then failwith "ill-conditioned coop case (generator emits dyadic rows only)";
    let (toks, dump) = read_coop_dump r in
    (* O *)
    (match status with
     | "OK" ->
       let dc = (match dump with Some x -> x | None -> oracle_fail "coop_validate_then_commit" site "accepted call left no object") in
       if not (disc_okb dc.co_d) then oracle_fail "ctor_validates_discount" site ("stored discount " ^ str_xq dc.co_d ^ " not in (0,1]");
       if not (valid_coopb dc) then oracle_fail "coop_validate_then_commit" site "accepted call left an invalid factored model";
       if not input_ok then oracle_fail "coop_validate_then_commit" site "an invalid input was accepted"
     | "THROW" ->
       if exn <> "invalid_argument" then oracle_fail "exception_type" site ("threw " ^ exn);
       if toks <> !prev then oracle_fail "coop_validate_then_commit" site "object changed by a call that threw";
       if input_ok then oracle_fail "coop_validate_then_commit" site "a valid input was rejected"
     | "NOOBJ" -> if toks <> ["NONE"] then oracle_fail "coop_validate_then_commit" site "object appeared"
     | s -> failwith ("unknown status " ^ s));
    (* C *)
    let (st', res) = coop_step true !st op in
    st := st';
    if res = Pre then failwith "coop case violates a precondition (generator bug)";
    let impl_res = (match status with "OK" -> "Ok" | "THROW" -> "Throw" | _ -> "NoObj") in
    if str_res res <> impl_res then disagree "accept_reject" site ("model " ^ str_res res ^ " impl " ^ impl_res);
    (match !st, dump with
     | None, None -> ()
     | Some m, Some dc ->
       let nats_eq a b = List.map int_of_nat a = List.map int_of_nat b in
       if not (xq_eq m.co_d dc.co_d) then disagree "discount" site "stored discount differs";
       if not (nats_eq m.co_g.cg_S dc.co_g.cg_S && nats_eq m.co_g.cg_A dc.co_g.cg_A) then disagree "spaces" site "S/A differ";
       if List.length m.co_g.cg_parents <> List.length dc.co_g.cg_parents
          || not (List.for_all2 (fun a b -> nats_eq a.cp_agents b.cp_agents && List.length a.cp_features = List.length b.cp_features
                                            && List.for_all2 nats_eq a.cp_features b.cp_features) m.co_g.cg_parents dc.co_g.cg_parents)
       then disagree "graph" site "stored parent sets differ";
       if List.length m.co_T <> List.length dc.co_T
          || not (List.for_all2 (fun a b -> int_of_nat a.cm_rows = int_of_nat b.cm_rows && int_of_nat a.cm_cols = int_of_nat b.cm_cols
                                            && List.length a.cm_data = List.length b.cm_data
                                            && List.for_all2 (fun r1 r2 -> List.length r1 = List.length r2 && List.for_all2 xq_eq r1 r2) a.cm_data b.cm_data) m.co_T dc.co_T)
       then disagree "transitions" site "stored transition matrices differ";
       if List.length m.co_R <> List.length dc.co_R
          || not (List.for_all2 (fun a b -> nats_eq a.cb_tag b.cb_tag && nats_eq a.cb_atag b.cb_atag
                                            && int_of_nat a.cb_rows = int_of_nat b.cb_rows && int_of_nat a.cb_cols = int_of_nat b.cb_cols) m.co_R dc.co_R)
       then disagree "rewards" site "stored reward bases differ"
     | _ -> disagree "object_presence" site "model and implementation disagree on whether an object exists");
    if is_ok_res res then incr acc else if res = Throw then incr thr;
    prev := toks
  done;
  ((!acc > 0 && !thr > 0) || (!rejected_push > 0 && !acc > 0), "coop")

let judge _id (c : cursor) (r : cursor) : bool * string =
  match next c with
  | "isprob" -> judge_isprob c r
  | "amdp" -> judge_amdp c r
  | "coop" -> judge_coop c r
  | k -> judge_seq (cls_of k) c r

let () = main_loop judge
