(* ml/C06/driver.ml — judge for property C06.
   O (oracle): after every call the implementation's dumped getters must describe a valid model
   (Spec.valid_model_kb / valid_pmodel_kb), a throwing call must leave the dump unchanged and
   throw std::invalid_argument, valid inputs must not be rejected, stored tables must equal the
   supplied ones.  C (correspondence): same accept/reject decision and same tables as the
   extracted state machine of the *repaired* code (fixed = true). *)
open Model
open Vio

(* ---------- conversions ---------- *)
let xq_of_xnum = function Fin q -> XFin q | NaN -> XNaN | PInf -> XPInf | NInf -> XNInf
let next_xq c = xq_of_xnum (next_x c)
let xq_eq a b = match a, b with
  | XFin x, XFin y -> q_eq x y | XPInf, XPInf | XNInf, XNInf | XNaN, XNaN -> true | _ -> false
let str_xq = function XFin q -> string_of_q q | XPInf -> "inf" | XNInf -> "-inf" | XNaN -> "nan"

let rec take n l = if n = 0 then [] else match l with [] -> failwith "reshape: short" | x :: t -> x :: take (n - 1) t
let rec drop n l = if n = 0 then l else match l with [] -> failwith "reshape: short" | _ :: t -> drop (n - 1) t
let rec chunks n l = if l = [] then [] else take n l :: chunks n (drop n l)
let reshape2 n1 n2 flat =
  if List.length flat <> n1 * n2 then failwith "reshape2: size mismatch";
  if n2 = 0 then List.init n1 (fun _ -> []) else chunks n2 flat
let reshape3 n1 n2 n3 flat =
  if List.length flat <> n1 * n2 * n3 then failwith "reshape3: size mismatch";
  List.map (fun m -> reshape2 n2 n3 m) (if n2 * n3 = 0 then List.init n1 (fun _ -> []) else chunks (n2 * n3) flat)

let eps = q_of_ints 1 1000000
let tiny = q_of_ints 1 1000000000          (* decision margin 1e-9 *)

(* a decision |sum-1| <= eps or |x| <= eps whose exact margin is tiny may legitimately differ
   between the double computation and the exact model *)
let row_ill (r : xq list) =
  if List.exists (function XFin _ -> false | _ -> true) r then false
  else begin
    let s = List.fold_left (fun a x -> match x with XFin q -> q_add a q | _ -> a) q_zero r in
    let sa = List.fold_left (fun a x -> match x with XFin q -> q_add a (q_abs q) | _ -> a) q_zero r in
    let near v = q_lt (q_abs (q_sub (q_abs (q_sub v q_one)) eps)) tiny in
    near s || near sa
  end
let entry_ill (x : xq) = match x with
  | XFin q -> q_lt (q_abs (q_sub (q_abs q) eps)) (q_of_ints 1 1000000000000) | _ -> false
let tab_ill ~sparse (t : xq list list list) =
  List.exists (List.exists (fun r -> row_ill r || (sparse && List.exists entry_ill r))) t

(* ---------- classes ---------- *)
type cls = { sparse : bool; pomdp : bool; name : string; base : string }
let cls_of = function
  | "md" -> { sparse = false; pomdp = false; name = "MDP::Model"; base = "MDP::Model" }
  | "ms" -> { sparse = true; pomdp = false; name = "MDP::SparseModel"; base = "MDP::SparseModel" }
  | "pd" -> { sparse = false; pomdp = true; name = "POMDP::Model"; base = "MDP::Model" }
  | "ps" -> { sparse = true; pomdp = true; name = "POMDP::SparseModel"; base = "MDP::SparseModel" }
  | k -> failwith ("unknown class " ^ k)
let kind_of cl = if cl.sparse then Sparse else Dense

(* ---------- dumps ---------- *)
type dump = { toks : string list; m : model option; p : pmodel option }

let read_dump cl (r : cursor) : dump =
  let start = r.pos in
  let tag = next r in
  if tag = "NONE" then { toks = ["NONE"]; m = None; p = None }
  else begin
    if tag <> "D" then failwith ("dump expected, got " ^ tag);
    let s = next_int r in let a = next_int r in let d = next_xq r in
    let tf = next_list r next_xq in
    let rf = next_list r next_x in
    let rq = List.map (function Fin q -> q | _ -> oracle_fail "rewards_finite" (cl.name ^ "::getRewardFunction") "non-finite stored reward") rf in
    if List.length tf <> a * s * s then oracle_fail "setter_validate_then_commit" (cl.name ^ "::getTransitionFunction") "transition table has wrong dimensions";
    if List.length rq <> s * a then oracle_fail "setter_validate_then_commit" (cl.name ^ "::getRewardFunction") "reward table has wrong dimensions";
    let m = { mS = nat_of_int s; mA = nat_of_int a; mT = reshape3 a s s tf; mR = reshape2 s a rq; mD = d } in
    let p =
      if cl.pomdp then begin
        let o = next_int r in
        let obf = next_list r next_xq in
        if List.length obf <> a * s * o then oracle_fail "setter_validate_then_commit" (cl.name ^ "::getObservationFunction") "observation table has wrong dimensions";
        Some { pM = m; pO = nat_of_int o; pOb = reshape3 a s o obf }
      end else None in
    let toks = Array.to_list (Array.sub r.toks start (r.pos - start)) in
    { toks; m = Some m; p }
  end

(* ---------- ops ---------- *)
(* parsed op: the model-side op (needs current dimensions for setters), plus bookkeeping *)
type pop_info = {
  opname : string;
  mop : op option;            (* MDP-level op (ctor or setter), if any *)
  pop : pop option;           (* POMDP-level op *)
  ill : bool;
  site : string;
  tables : (string * xq list list list) list;   (* probability tables supplied, with the overload used *)
  disc : xq option;
}

let dims_of (st_m : model option) = match st_m with
  | Some m -> (int_of_nat m.mS, int_of_nat m.mA) | None -> (0, 0)

let read_base_ctor cl (c : cursor) (k : string) : op * bool * (string * xq list list list) list * xq =
  let s = next_int c in let a = next_int c in let d = next_xq c in
  if k = "ctor3" then (Ctor3 (nat_of_int s, nat_of_int a, d), false, [], d)
  else begin
    let t = reshape3 s a s (next_list c next_xq) in
    let r = reshape3 s a s (next_list c next_q) in
    let ill = tab_ill ~sparse:cl.sparse t
              || (cl.sparse && List.exists (List.exists (List.exists (fun x -> entry_ill (XFin x)))) r) in
    if k = "ctort" then (CtorTables (nat_of_int s, nat_of_int a, t, r, d), ill, [("t", t)], d)
    else (CtorCopy { gS = nat_of_int s; gA = nat_of_int a; gD = d; gT = t; gR = r }, ill, [("copy", t)], d)
  end

let read_op cl (c : cursor) (st_m : model option) (st_o : int) : pop_info =
  let k = next c in
  let (s, a) = dims_of st_m in
  let have = st_m <> None in
  let flat_x () = next_list c next_xq in
  let sh3 n1 n2 n3 f = if have then reshape3 n1 n2 n3 f else [] in
  let mk opname mop pop ill site tables disc = { opname; mop; pop; ill; site; tables; disc } in
  let lift (o : op) = if cl.pomdp then (None, Some (PBase o)) else (Some o, None) in
  match k with
  | "ctor3" | "ctort" | "ctorc" ->
    let (o, ill, tabs, d) = read_base_ctor cl c k in
    let site = cl.name ^ "::" ^ (match k with "ctor3" -> "Model(s,a,discount)" | "ctort" -> "Model(s,a,t,r,d)" | _ -> "Model(const_M&)") in
    mk k (Some o) None ill site tabs (Some d)
  | "pctor" | "pctorob" ->
    let no = next_int c in
    let obflat = if k = "pctorob" then flat_x () else [] in
    let bk = next c in
    let (o, ill, tabs, d) = read_base_ctor cl c bk in
    let (bs, ba) = (match o with
        | Ctor3 (s, a, _) | CtorTables (s, a, _, _, _) -> (int_of_nat s, int_of_nat a)
        | CtorCopy g -> (int_of_nat g.gS, int_of_nat g.gA) | _ -> (0, 0)) in
    let site = cl.name ^ "::Model(o," ^ (if k = "pctorob" then "of," else "") ^ bk ^ ")" in
    if k = "pctor" then mk (k ^ "+" ^ bk) None (Some (PCtor (nat_of_int no, o))) ill site tabs (Some d)
    else begin
      let obf = reshape3 bs ba no obflat in
      mk (k ^ "+" ^ bk) None (Some (PCtorOb (nat_of_int no, obf, o))) (ill || tab_ill ~sparse:cl.sparse obf) site (("t", obf) :: tabs) (Some d)
    end
  | "pctorc" ->
    let no = next_int c in
    let obflat = flat_x () in
    let (o, ill, tabs, d) = read_base_ctor cl c "ctorc" in
    let g = (match o with CtorCopy g -> g | _ -> failwith "pctorc") in
    let obf = reshape3 (int_of_nat g.gS) (int_of_nat g.gA) no obflat in
    mk k None (Some (PCtorCopy { gpM = g; gpO = nat_of_int no; gpOb = obf }))
      (ill || tab_ill ~sparse:cl.sparse obf) (cl.name ^ "::Model(const_PM&)") (("copy", obf) :: tabs) (Some d)
  | "conv" ->
    mk k None None false (cl.name ^ "::Model(const_M&)") [("copy", [])] None
  | "setd" ->
    let d = next_xq c in
    let (mo, po) = lift (SetDiscount d) in
    mk k mo po false (cl.base ^ "::setDiscount") [] (Some d)
  | "sett3" ->
    let t = sh3 s a s (flat_x ()) in
    let (mo, po) = lift (SetT3 t) in
    mk k mo po (tab_ill ~sparse:cl.sparse t) (cl.base ^ "::setTransitionFunction(T)") [("t", t)] None
  | "settm" ->
    let t = sh3 a s s (flat_x ()) in
    let (mo, po) = lift (SetTM t) in
    mk k mo po (tab_ill ~sparse:cl.sparse t) (cl.base ^ "::setTransitionFunction(Matrix3D)") [((if cl.sparse then "s" else "m"), t)] None
  | "setr3" ->
    let f = next_list c next_q in
    let r = if have then reshape3 s a s f else [] in
    let (mo, po) = lift (SetR3 r) in
    mk k mo po false (cl.base ^ "::setRewardFunction(R)") [] None
  | "setrm" ->
    let f = next_list c next_q in
    let r = if have then reshape2 s a f else [] in
    let (mo, po) = lift (SetRM r) in
    mk k mo po false (cl.base ^ "::setRewardFunction(Matrix2D)") [] None
  | "seto3" ->
    let t = sh3 s a st_o (flat_x ()) in
    mk k None (Some (PSetO3 t)) (tab_ill ~sparse:cl.sparse t) (cl.name ^ "::setObservationFunction(O)") [("t", t)] None
  | "setom" ->
    let t = sh3 a s st_o (flat_x ()) in
    mk k None (Some (PSetOM t)) (tab_ill ~sparse:cl.sparse t) (cl.name ^ "::setObservationFunction(Matrix3D)") [((if cl.sparse then "s" else "m"), t)] None
  | k -> failwith ("unknown op " ^ k)

(* ---------- comparisons ---------- *)
let small_q (x : q) =   (* few-bit dyadic: products and sums stay exact in double arithmetic *)
  let x = vio_qred x in
  let rec bits p = match p with XH -> 1 | XO p' | XI p' -> 1 + bits p' in
  bits (vio_qden x) <= 20 && (match vio_qnum x with Z0 -> true | Zpos p | Zneg p -> bits p <= 20)

let tab3_eq (a : xq list list list) (b : xq list list list) =
  List.length a = List.length b && List.for_all2 (fun x y ->
      List.length x = List.length y && List.for_all2 (fun r1 r2 ->
          List.length r1 = List.length r2 && List.for_all2 xq_eq r1 r2) x y) a b

let mat_cmp ~exact (a : q list list) (b : q list list) =
  List.length a = List.length b && List.for_all2 (fun r1 r2 ->
      List.length r1 = List.length r2 &&
      List.for_all2 (fun x y -> if exact then q_eq x y else q_close ~atol:(q_of_ints 1 1000000000000) x y) r1 r2) a b

let is_ok_res = function Ok -> true | _ -> false
let str_res = function Ok -> "Ok" | Throw -> "Throw" | NoObj -> "NoObj" | Pre -> "Pre"

(* ---------- the judge for op sequences ---------- *)
let judge_seq (cl : cls) (c : cursor) (r : cursor) : bool * string =
  let k = kind_of cl in
  let nops = next_int c in
  let st_m : model option ref = ref None in      (* model-side state (MDP classes) *)
  let st_p : pmodel option ref = ref None in     (* model-side state (POMDP classes) *)
  let prev : dump ref = ref { toks = ["NONE"]; m = None; p = None } in
  let accepted = ref 0 and thrown = ref 0 and ill = ref false in
  let exact_r = ref true in
  (try
    for _i = 1 to nops do
      let cur_m = if cl.pomdp then (match !st_p with Some p -> Some p.pM | None -> None) else !st_m in
      let cur_o = (match !st_p with Some p -> int_of_nat p.pO | None -> 0) in
      let info = read_op cl c cur_m cur_o in
      let status = next r in
      let exn = if status = "THROW" then next r else "" in
      if info.ill then (ill := true; raise Exit);
      let d = read_dump cl r in
      (* ---------------- O: oracle on the implementation's own outputs ---------------- *)
      (match status with
       | "OK" ->
         let dm = (match d.m with Some m -> m | None -> oracle_fail "setter_validate_then_commit" info.site "accepted call left no object") in
         (* discount *)
         if not (disc_okb dm.mD) then begin
           if info.opname = "ctor3" || info.opname = "pctor+ctor3" || info.opname = "pctorob+ctor3"
           then oracle_fail "ctor_validates_discount" (cl.base ^ "::Model(s,a,discount)") ("stored discount " ^ str_xq dm.mD ^ " not in (0,1]")
           else if dm.mD = XNaN then oracle_fail "setDiscount_rejects_nan" (cl.base ^ "::setDiscount") "NaN accepted as a discount"
           else oracle_fail "setDiscount_iff" (cl.base ^ "::setDiscount") ("accepted discount " ^ str_xq dm.mD ^ " not in (0,1]")
         end;
         (* tables: the guaranteed (kind-dependent) tolerance must always hold *)
         let weak = if cl.pomdp then (match d.p with Some p -> valid_pmodel_kb k k p | None -> false) else valid_model_kb k dm in
         if not weak then oracle_fail "setter_validate_then_commit" info.site "accepted call left rows that are not distributions (beyond the sparse tolerance)";
         (* the property's own notion (epsS, entries >= 0): may fail only through the sparse findings *)
         let strict = if cl.pomdp then (match d.p with Some p -> valid_pmodel_kb Dense Dense p | None -> false) else valid_model_kb Dense dm in
         if not strict then begin
           let neg = List.exists (fun (_, t) -> List.exists (List.exists (List.exists (fun x -> match x with XFin q -> q_lt q q_zero | _ -> false))) t) info.tables in
           if neg then oracle_fail "isProbability_sparse_nonneg" "isProbability(SparseMatrix2D)" "a row with a negative entry was accepted and stored"
           else begin
             (* the template setters validate the row and then drop entries <= 1e-6; name the setter that did it *)
             let site = if valid_model_kb Dense dm then "POMDP::SparseModel::setObservationFunction(O)"
               else "MDP::SparseModel::setTransitionFunction(T)" in
             oracle_fail "sparse_rows_within_epsS" site ("stored row sum differs from 1 by more than 1e-6 after dropping small entries (call: " ^ info.site ^ ")")
           end
         end
       | "THROW" ->
         if exn <> "invalid_argument" then oracle_fail "exception_type" info.site ("threw " ^ exn);
         if d.toks <> !prev.toks then oracle_fail "setter_validate_then_commit" info.site "object changed by a call that threw";
         (* a rejected input must really be invalid (spec-side decision, independent of the model) *)
         let disc_fine = (match info.disc with Some x -> disc_okb x | None -> true) in
         let tabs_fine = List.for_all (fun (ov, t) ->
             match ov with
             | "t" | "m" -> prob_tableb t
             | "s" -> sprob_tableb t
             | _ -> false (* copy constructors: own rule, judged by C only *)) info.tables in
         let has_copy = List.exists (fun (ov, _) -> ov = "copy") info.tables in
         if disc_fine && tabs_fine && not has_copy then
           oracle_fail "isProbability_iff" info.site "a valid input was rejected"
       | "NOOBJ" ->
         if d.toks <> ["NONE"] then oracle_fail "setter_validate_then_commit" info.site "object appeared"
       | s -> failwith ("unknown status " ^ s));
      (* ---------------- C: the extracted state machine ---------------- *)
      let res =
        if cl.pomdp then begin
          let po = (match info.pop with Some x -> x | None -> failwith "MDP-level constructor used on a POMDP class") in
          let (st', res) = pstep true k k !st_p po in
          st_p := st'; res
        end else if info.opname = "conv" then begin
          let other = if cl.sparse then Dense else Sparse in
          (match !st_m with
           | None -> NoObj
           | Some m ->
             (match convert true other m with
              | (Some m1, _) ->
                (match convert true k m1 with
                 | (Some m2, _) -> st_m := Some m2; Ok
                 | _ -> Throw)
              | _ -> Throw))
        end else begin
          let mo = (match info.mop with Some x -> x | None -> failwith "POMDP-level op used on an MDP class") in
          let (st', res) = step true k !st_m mo in
          st_m := st'; res
        end in
      if res = Pre then failwith "case violates a documented precondition (generator bug)";
      let impl_res = (match status with "OK" -> "Ok" | "THROW" -> "Throw" | _ -> "NoObj") in
      if str_res res <> impl_res then
        disagree "accept_reject" info.site ("model " ^ str_res res ^ " impl " ^ impl_res);
      (* same tables *)
      let model_m = if cl.pomdp then (match !st_p with Some p -> Some p.pM | None -> None) else !st_m in
      (match model_m, d.m with
       | None, None -> ()
       | Some mm, Some dm ->
         if int_of_nat mm.mS <> int_of_nat dm.mS || int_of_nat mm.mA <> int_of_nat dm.mA then disagree "dims" info.site "S/A differ";
         if not (xq_eq mm.mD dm.mD) then disagree "discount" info.site ("model " ^ str_xq mm.mD ^ " impl " ^ str_xq dm.mD);
         if not (tab3_eq mm.mT dm.mT) then disagree "transitions" info.site "stored transition tables differ";
         exact_r := !exact_r && List.for_all (List.for_all small_q) mm.mR
                    && List.for_all (List.for_all (List.for_all (function XFin q -> small_q q | _ -> false))) mm.mT;
         if not (mat_cmp ~exact:!exact_r mm.mR dm.mR) then disagree "rewards" info.site "stored reward tables differ"
       | _ -> disagree "object_presence" info.site "model and implementation disagree on whether an object exists");
      (match !st_p, d.p with
       | Some mp, Some dp ->
         if int_of_nat mp.pO <> int_of_nat dp.pO then disagree "dims" info.site "O differs";
         if not (tab3_eq mp.pOb dp.pOb) then disagree "observations" info.site "stored observation tables differ"
       | _ -> ());
      if is_ok_res res then incr accepted else if res = Throw then incr thrown;
      prev := d
    done
  with Exit -> ());
  if !ill then (false, "ill_conditioned")
  else (!accepted > 0 && !thrown > 0, Printf.sprintf "%s:%s" cl.name (if !thrown > 0 then "with_throw" else "all_ok"))

(* ---------- single validator calls ---------- *)
let judge_isprob (c : cursor) (r : cursor) : bool * string =
  let ov = next c in
  let rows = next_int c in let cols = next_int c in
  let t = reshape3 1 rows cols (next_list c next_xq) in
  let impl = (next_int r = 1) in
  if tab_ill ~sparse:false t then (false, "ill_conditioned") else begin
    let site = "isProbability(" ^ ov ^ ")" in
    let m2 = List.hd t in
    let spec = (match ov with "s2" | "s3" -> sprob_tableb t | _ -> prob_tableb t) in
    (* O: the validator's verdict against the spec-side decision *)
    if impl && not spec then oracle_fail "isProbability_iff" site "accepts a table that is not a distribution";
    if (not impl) && spec then oracle_fail "isProbability_iff" site "rejects a valid distribution";
    (match ov with
     | "s2" | "s3" ->
       if impl && not (prob_tableb t) then oracle_fail "isProbability_sparse_nonneg" "isProbability(SparseMatrix2D)" "accepts a row with a negative entry"
     | _ -> ());
    let model = (match ov with
        | "t1" -> isProbability1 (List.hd m2) | "t2" -> isProbability2 m2 | "t3" -> isProbability3 t
        | "m2" -> isProbabilityM2 m2 | "m3" -> isProbabilityM3 t
        | "s2" -> isProbabilityS2 m2 | "s3" -> isProbabilityS3 t
        | _ -> failwith "overload") in
    if model <> impl then disagree "isProbability" site "model and implementation differ";
    (not impl, "isprob:" ^ ov)
  end


(* ---------- AMDP discretisation ---------- *)
let judge_amdp (c : cursor) (r : cursor) : bool * string =
  let v = next c in
  let sparse = (v = "s") in
  let k = if sparse then Sparse else Dense in
  let site = if sparse then "AMDP::discretizeSparse" else "AMDP::discretizeDense" in
  let s1 = next_int r in let a = next_int r in let d = next_xq r in
  let t' = reshape3 a s1 s1 (next_list r next_xq) in
  let r' = reshape2 s1 a (List.map xq_of_xnum (next_list r next_x)) in
  let tacc = reshape3 a s1 s1 (next_list r next_q) in
  let racc = reshape2 s1 a (next_list r next_q) in
  (* assumption of the theorem, checked on the recomputed accumulators *)
  List.iteri (fun ai ta -> List.iteri (fun si row ->
      if not (acc_row_okb row (List.nth (List.nth racc si) ai)) then
        oracle_fail "amdp_acc_ok" site "accumulated row is neither unvisited nor of mass > 1e-6") ta) tacc;
  (* O: the derived model is a valid finite MDP with finite rewards *)
  List.iter (List.iter (fun x -> match x with XFin _ -> () | _ ->
      oracle_fail "amdp_valid" site ("reward " ^ str_xq x ^ " in the derived model (bucket no sampled belief falls in)"))) r';
  let rq = List.map (List.map (function XFin q -> q | _ -> q_zero)) r' in
  let dm = { mS = nat_of_int s1; mA = nat_of_int a; mT = t'; mR = rq; mD = d } in
  if not (valid_model_kb Dense dm) then oracle_fail "amdp_valid" site "derived model is not a valid MDP";
  (* C: the final normalisation of the repaired code on the same accumulators *)
  let (mt, mr) = amdp_finish true k tacc racc in
  let close x y = q_close ~atol:(q_of_ints 1 1000000000000) ~rtol:(q_of_ints 1 1000000000000) x y in
  let ok_t = List.for_all2 (fun ma ia -> List.for_all2 (fun r1 r2 -> List.for_all2 (fun x y -> match y with XFin q -> close x q | _ -> false) r1 r2) ma ia) mt t' in
  if not ok_t then disagree "amdp_finish" site "normalised transition rows differ";
  let ok_r = List.for_all2 (fun r1 r2 -> List.for_all2 (fun x y -> match x, y with XFin p, XFin q -> close p q | _ -> false) r1 r2) mr r' in
  if not ok_r then disagree "amdp_finish" site "normalised rewards differ";
  let unvisited = List.exists (List.exists (List.for_all (fun x -> q_eq x q_zero))) tacc in
  (unvisited, "amdp:" ^ v)

let judge _id (c : cursor) (r : cursor) : bool * string =
  match next c with
  | "isprob" -> judge_isprob c r
  | "amdp" -> judge_amdp c r
  | k -> judge_seq (cls_of k) c r

let () = main_loop judge
