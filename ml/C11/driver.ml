(* ml/C11/driver.ml — judge for property C11.
   O: bounds / trace range / unique keys / lambda=0 one-step / PS invariant evaluated on the
      implementation's dumped state (Coq-extracted checkers).
   C: the extracted model is stepped from the implementation's previous dump (re-synchronised at
      every dump, so floating rounding never accumulates) and compared with the next dump:
      exactly while every number involved is a small dyadic, else within 1e-9. *)
open Model
open Vio

(* ---------- sizes of numerals ---------- *)
let rec pos_bits (p : positive) : int = match p with XH -> 1 | XO p' | XI p' -> 1 + pos_bits p'
let z_bits (x : z) : int = match x with Z0 -> 0 | Zpos p | Zneg p -> pos_bits p
(* small dyadic: one learner step on such inputs is computed without rounding by the C++ *)
let small_n (db : int) (x : q) : bool = let x = vio_qred x in pos_bits (vio_qden x) <= db && z_bits (vio_qnum x) <= db + 8
let small = small_n 24
let small_tab (t : q list list) = List.for_all (List.for_all small) t
let small_tab_n db (t : q list list) = List.for_all (List.for_all (small_n db)) t
(* 0 or 1/2^k: dividing by it is exact *)
let pow2inv (x : q) : bool = let x = vio_qred x in (match vio_qnum x with Zpos XH -> true | _ -> false)

let q_div = vio_qdiv
let q_min a b = if q_le a b then a else b
let qi = q_of_int

let tol9 = q_of_ints 1 1000000000

let read_table (r : cursor) (ns : int) (na : int) : q list list =
  List.init ns (fun _ -> List.init na (fun _ -> next_q r))

let str_tab (t : q list list) = String.concat " | " (List.map str_qs t)

(* compare two tables entrywise *)
(* [abs_tol]: outside the exact regime, an absolute tolerance scaled to the magnitudes that entered the
   computation (re-synchronised steps only carry a few ulps of those) instead of the default 1e-9 relative *)
let cmp_tab ?(abs_tol : q option) ~(exact : bool) (clause : string) (site : string) (m : q list list) (i : q list list) =
  if List.length m <> List.length i then disagree clause site "row count differs";
  List.iteri (fun s (mr, ir) ->
      if List.length mr <> List.length ir then disagree clause site "row length differs";
      List.iteri (fun a (x, y) ->
          let ok = if exact then q_eq x y else
              (match abs_tol with Some t -> q_le (q_abs (q_sub x y)) t | None -> q_close x y) in
          if not ok then
            disagree clause site (Printf.sprintf "entry (%d,%d): model %s impl %s%s" s a (string_of_q x) (string_of_q y)
                                    (if exact then " (exact regime)" else "")))
        (List.combine mr ir))
    (List.combine m i)

(* box with slack (slack 0 in the exact regime) *)
let check_box ~(exact : bool) clause site lo hi (t : q list list) =
  let sl b = if exact then q_zero else q_mul tol9 (q_add q_one (q_abs b)) in
  if not (in_boxb (q_sub lo (sl lo)) (q_add hi (sl hi)) t) then
    oracle_fail clause site (Printf.sprintf "entry outside [%s,%s]: %s" (string_of_q lo) (string_of_q hi) (str_tab t))

let box_of (g : q) (rs : q list) : (q * q) option =
  if q_lt g q_one then begin
    let rmin = List.fold_left q_min q_zero rs and rmax = List.fold_left q_max q_zero rs in
    let d = q_sub q_one g in Some (q_div rmin d, q_div rmax d)
  end else None

let dump_at every n i = (i + 1) mod every = 0 || i + 1 = n

(* ---------- traces ---------- *)
type tr = (nat * nat) * q
let read_traces (r : cursor) : tr list =
  next_list r (fun r -> let s = next_nat r in let a = next_nat r in let e = next_q r in ((s, a), e))
let tr_key (((s, a), e) : tr) = (int_of_nat s, int_of_nat a)
let sort_tr (l : tr list) = List.sort (fun x y -> let c = compare (tr_key x) (tr_key y) in if c <> 0 then c else q_cmp (snd x) (snd y)) l
let str_tr (l : tr list) = String.concat " " (List.map (fun (((s, a), e) : tr) -> Printf.sprintf "(%d,%d,%s)" (int_of_nat s) (int_of_nat a) (string_of_q e)) l)
let cmp_traces ~exact clause site (m : tr list) (i : tr list) =
  let m = sort_tr m and i = sort_tr i in
  let bad () = disagree clause site (Printf.sprintf "traces differ (as multisets): model %s impl %s" (str_tr m) (str_tr i)) in
  if List.length m <> List.length i then bad ();
  List.iter2 (fun x y -> if tr_key x <> tr_key y then bad ();
               if not (if exact then q_eq (snd x) (snd y) else q_close (snd x) (snd y)) then bad ()) m i
let small_tr (l : tr list) = List.for_all (fun (_, e) -> small_n 12 e) l

(* the two largest entries of a row are within 1e-9 (relative): an arg-max taken on rounded doubles may
   legitimately differ from the one taken on the exact values *)
let near_tie (rw : q list) : bool =
  match List.sort (fun x y -> q_cmp y x) rw with
  | a :: b :: _ -> q_le (q_sub a b) (q_mul tol9 (q_add q_one (q_abs a)))
  | _ -> false
let tab_max (t : q list list) : q = List.fold_left (fun acc r -> List.fold_left (fun acc x -> q_max acc (q_abs x)) acc r) q_zero t
let tol11 = q_of_ints 1 100000000000
let matrix_row (m : q list list) (s : nat) : q list = List.nth m (int_of_nat s)
let matrix_get (m : q list list) (s : nat) (a : nat) : q = List.nth (matrix_row m s) (int_of_nat a)

(* run-time setter ops interleaved with the steps: a single capital letter followed by the new value
   (A learning rate, B negative learning rate, G discount, L lambda, T tolerance, E epsilon,
   P/Q permanent/transient lambda of Dyna2).  The generator only emits them right after a dump. *)
let is_op (c : cursor) = (not (at_end c)) && (let t = peek c in String.length t = 1 && t.[0] >= 'A' && t.[0] <= 'Z')
let read_sets (c : cursor) : (char * q) list =
  let rec go acc = if is_op c then (let o = next c in let v = next_q c in go ((o.[0], v) :: acc)) else List.rev acc in
  go []
let q_maxl = List.fold_left q_max

let judge _id (c : cursor) (r : cursor) : bool * string =
  let kind = next c in
  match kind with
  | "ql" | "hyst" | "sarsa" | "esarsa" ->
    let ns = next_int c in let na = next_int c in
    let alpha = ref (next_q c) in
    let beta = ref (if kind = "hyst" then next_q c else q_zero) in
    let g = ref (next_q c) in
    let every = next_int c in let n = next_int c in
    (* steps: (setters before the step, s, a, s1, a1, r, prow) *)
    let steps = List.init n (fun _ ->
        let sets = read_sets c in
        let s = next_nat c in let a = next_nat c in let s1 = next_nat c in
        let a1 = if kind = "sarsa" then next_nat c else O in
        let rw = next_q c in
        let prow = if kind = "esarsa" then List.init na (fun _ -> next_q c) else [] in
        (sets, s, a, s1, a1, rw, prow)) in
    (* the box of the largest discount in force during the history *)
    let gmax = q_maxl !g (List.concat_map (fun (sets, _, _, _, _, _, _) -> List.filter_map (fun (o, v) -> if o = 'G' then Some v else None) sets) steps) in
    let nsets = List.fold_left (fun acc (sets, _, _, _, _, _, _) -> acc + List.length sets) 0 steps in
    let box = box_of gmax (List.map (fun (_, _, _, _, _, rw, _) -> rw) steps) in
    let site = (match kind with "ql" -> "QLearning::stepUpdateQ" | "hyst" -> "HystereticQLearning::stepUpdateQ"
                              | "sarsa" -> "SARSA::stepUpdateQ" | _ -> "ExpectedSARSA::stepUpdateQ") in
    let clause = (match kind with "ql" -> "ql_bounded" | "hyst" -> "hysteretic_bounded"
                                | "sarsa" -> "sarsa_bounded" | _ -> "expected_sarsa_bounded") in
    let step q (_, s, a, s1, a1, rw, prow) =
      match kind with
      | "ql" -> ql_step !alpha !g q (((s, a), s1), rw)
      | "hyst" -> hyst_step !alpha !beta !g q (((s, a), s1), rw)
      | "sarsa" -> sarsa_step !alpha !g q ((((s, a), s1), a1), rw)
      | _ -> esarsa_step !alpha !g q ((((s, a), s1), rw), prow) in
    let state = ref (qzero (nat_of_int ns) (nat_of_int na)) in
    let pending = ref [] in
    List.iteri (fun i ((sets, _, _, _, _, _, _) as st) ->
        if sets <> [] && !pending <> [] then failwith "setter inside an un-dumped batch";
        List.iter (fun (o, v) -> match o with 'A' -> alpha := v | 'B' -> beta := v | 'G' -> g := v | _ -> failwith "unknown setter") sets;
        pending := st :: !pending;
        if dump_at every n i then begin
          let impl = read_table r ns na in
          let pend = List.rev !pending in
          let ex = small !alpha && small !beta && small !g && small_tab !state
                   && List.for_all (fun (_, _, _, _, _, rw, pr) -> small rw && List.for_all small pr) pend
                   && List.length pend <= 2 in
          (match box with Some (lo, hi) -> check_box ~exact:ex clause site lo hi impl | None -> ());
          let m = List.fold_left step !state pend in
          cmp_tab ~exact:ex (kind ^ "_step") site m impl;
          state := impl; pending := []
        end) steps;
    (n >= 2, kind ^ (if small !g && small !alpha then "_dyadic" else "_general") ^ (if nsets > 0 then "_setters" else ""))
  | "dq" ->
    let ns = next_int c in let na = next_int c in
    let alpha = ref (next_q c) in let g = ref (next_q c) in
    let every = next_int c in let n = next_int c in
    let steps = List.init n (fun _ ->
        let sets = read_sets c in
        let s = next_nat c in let a = next_nat c in let s1 = next_nat c in let rw = next_q c in (sets, s, a, s1, rw)) in
    let gmax = q_maxl !g (List.concat_map (fun (sets, _, _, _, _) -> List.filter_map (fun (o, v) -> if o = 'G' then Some v else None) sets) steps) in
    let box = box_of gmax (List.map (fun (_, _, _, _, rw) -> rw) steps) in
    let site = "DoubleQLearning::stepUpdateQ" in
    let z = qzero (nat_of_int ns) (nat_of_int na) in
    let state = ref (z, z) in
    let pending = ref [] in
    let heads = ref 0 in
    let illc = ref 0 in
    List.iteri (fun i (sets, s, a, s1, rw) ->
        if sets <> [] && !pending <> [] then failwith "setter inside an un-dumped batch";
        List.iter (fun (o, v) -> match o with 'A' -> alpha := v | 'G' -> g := v | _ -> failwith "unknown setter") sets;
        let coin = (next_int r) <> 0 in
        if coin then incr heads;
        pending := ((((coin, s), a), s1), rw) :: !pending;
        if dump_at every n i then begin
          let ia = read_table r ns na in let ic = read_table r ns na in
          let pend = List.rev !pending in
          let ex = small !alpha && small !g && small_tab (fst !state) && small_tab (snd !state)
                   && List.for_all (fun ((((_, _), _), _), rw) -> small rw) pend && List.length pend <= 2 in
          (match box with
           | Some (lo, hi) ->
             let sl b = if ex then q_zero else q_mul tol9 (q_add q_one (q_abs b)) in
             if not (in_box2b (q_sub lo (sl lo)) (q_add hi (sl hi)) ia ic) then
               oracle_fail "doubleq_bounded" site (Printf.sprintf "qa or qc-qa outside [%s,%s]: qa %s qc %s" (string_of_q lo) (string_of_q hi) (str_tab ia) (str_tab ic))
           | None -> ());
          (* round 6, O: the documented rule on the documented tables A = qa, B = qc - qa, between two consecutive
             dumps (exact regime, single step) *)
          (match pend with
           | [((((coin, s), a), s1), rw)] when ex ->
             if not (dq_documentedb (nat_of_int ns) (nat_of_int na) !alpha !g !state (ia, ic) coin s a s1 rw) then
               oracle_fail "doubleq_documented_rule" site
                 (Printf.sprintf "coin %b sample (%d,%d,%d,%s) alpha %s gamma %s: qa %s qc %s -> qa %s qc %s" coin (int_of_nat s) (int_of_nat a)
                    (int_of_nat s1) (string_of_q rw) (string_of_q !alpha) (string_of_q !g)
                    (str_tab (fst !state)) (str_tab (snd !state)) (str_tab ia) (str_tab ic))
           | _ -> ());
          let tie = ref false in
          let (ma, mc) = List.fold_left (fun (qa, qc) (((((coin, s), a), s1), rw) as e) ->
              let ra = matrix_row qa s1 and rc = matrix_row qc s1 in
              if near_tie (if coin then ra else List.map2 q_sub rc ra) then tie := true;
              dq_step !alpha !g (qa, qc) e) !state pend in
          (try cmp_tab ~exact:ex "dq_step_qa" site ma ia; cmp_tab ~exact:ex "dq_step_qc" site mc ic
           with Disagreement (c0, s0, d0) ->
             (* outside the exact regime a near-tie in the arg-max row is ill-conditioned: skip *)
             if (not ex) && !tie then incr illc else raise (Disagreement (c0, s0, d0)));
          state := (ia, ic); pending := []
        end) steps;
    (n >= 2 && !heads > 0 && !heads < n, "dq" ^ (if small !g && small !alpha then "_dyadic" else "_general") ^ (if !illc > 0 then "_ill_conditioned" else ""))
  | "sarsal" | "octl" | "oevl" ->
    let k = if kind = "sarsal" then "sarsal" else next c in
    let ns = next_int c in let na = next_int c in
    let alpha0 = next_q c in let g0 = next_q c in let lam0 = next_q c in let tol0 = next_q c in
    (* parameters live in the model's SARSAL record (cached gammaL_ included); the off-policy family
       reads its members directly, so the same record is used with sl_gl ignored *)
    let par = ref (sl_ctor alpha0 g0 lam0 tol0) in
    let eps = ref (if kind = "octl" then next_q c else q_zero) in
    let read_mat () = List.init ns (fun _ -> List.init na (fun _ -> next_q c)) in
    let tgt = if kind = "oevl" then read_mat () else [] in
    let beh = if kind = "sarsal" then [] else read_mat () in
    let every = next_int c in let n = next_int c in
    let steps = List.init n (fun _ ->
        let sets = read_sets c in
        let s = next_nat c in let a = next_nat c in let s1 = next_nat c in
        let a1 = if kind = "sarsal" then next_nat c else O in
        let rw = next_q c in (sets, s, a, s1, a1, rw)) in
    let nsets = List.fold_left (fun acc (sets, _, _, _, _, _) -> acc + List.length sets) 0 steps in
    let ok = (match k with "ql" -> KQL | "retrace" -> KRetrace | "tb" -> KTreeBackup | "is" -> KImportance | _ -> KQL) in
    let site = (match kind with "sarsal" -> "SARSAL::stepUpdateQ" | "octl" -> "OffPolicyControl::stepUpdateQ" | _ -> "OffPolicyEvaluation::stepUpdateQ") in
    (* [legacy]: OffPolicyControl as it stands in an unrepaired tree (greedy action of s1 handed to getTraceDiscount) *)
    let step_with ~legacy tol st (_, s, a, s1, a1, rw) =
      let p = !par in
      match kind with
      | "sarsal" -> sarsal_step_p (sl_set_tol p tol) st ((((s, a), s1), a1), rw)
      | "octl" ->
        (if legacy then offctrl_step_legacy else offctrl_step) ok p.sl_alpha p.sl_g p.sl_lam tol !eps (nat_of_int na) st ((((s, a), s1), rw), matrix_get beh s a)
      | _ -> offeval_step ok p.sl_alpha p.sl_g p.sl_lam tol st ((((((s, a), s1), rw), matrix_row tgt s1), matrix_get tgt s a), matrix_get beh s a) in
    let ill = ref 0 in
    (* the target row of the one-step expected backup *)
    let target_row (q : q list list) (s1 : nat) (a1 : nat) : q list =
      match kind with
      | "sarsal" -> point_row (nat_of_int na) a1
      | "octl" -> egreedy_row !eps (matrix_row q s1)
      | _ -> matrix_row tgt s1 in
    let lam_family = (kind = "sarsal" || k <> "is") in
    (* round 6: a tail probability 2^-20..2^-30 times a table entry with up to 18 fractional bits needs more than
       53 bits, so such evaluation cases are never "exact" (false alarm seen once: 1 ulp at 2^-39 on -14080) *)
    let mats_small = small_tab tgt && small_tab beh && (kind <> "oevl" || small_tab_n 12 tgt)
                     && (kind <> "octl" || na = 1 || na = 2 || na = 4)
                     && (not (k = "retrace" || k = "is") || List.for_all (List.for_all pow2inv) beh) in
    let state = ref (qzero (nat_of_int ns) (nat_of_int na), ([] : tr list)) in
    let pending = ref [] in
    let removed = ref false in
    List.iteri (fun i ((sets, _, _, _, _, _) as st) ->
        if sets <> [] && !pending <> [] then failwith "setter inside an un-dumped batch";
        List.iter (fun (o, v) -> match o with
            | 'A' -> par := sl_set_alpha !par v
            | 'G' -> par := sl_set_discount !par v
            | 'L' -> par := sl_set_lambda !par v
            | 'T' -> par := sl_set_tol !par v
            | 'E' -> eps := v
            | _ -> failwith "unknown setter") sets;
        pending := st :: !pending;
        if dump_at every n i then begin
          let p = !par in
          let tol = p.sl_tol and lam = p.sl_lam in
          let iq = read_table r ns na in
          let itr = read_traces r in
          let pend = List.rev !pending in
          let ex = mats_small && small p.sl_alpha && small p.sl_g && small lam && small tol && small !eps
                   && small_tab_n 18 (fst !state) && small_tr (snd !state)
                   && List.for_all (fun (_, _, _, _, _, rw) -> small rw) pend && List.length pend <= 1 in
          (* tolerance of the non-exact regime: 1e-11 per un-synchronised step, relative to the largest
             magnitude among the previous table, the dump and the rewards (a dropped term pi * Q with
             pi >= 2^-30 is far above it, rounding of a step far below) *)
          let mag = List.fold_left (fun acc (_, _, _, _, _, rw) -> q_max acc (q_abs rw)) (q_max (tab_max (fst !state)) (tab_max iq)) pend in
          let atol = q_mul (q_mul tol11 (q_add q_one mag)) (qi (max 1 (List.length pend))) in
          (* O: trace range, unique keys, lambda = 0 one-step backup *)
          if lam_family && q_le tol q_one && not (traces_inb tol itr) then
            oracle_fail "trace_range" site ("stored trace outside [tol,1]: " ^ str_tr itr);
          if not (uniq_keysb itr) then oracle_fail "traces_unique_keys" site ("duplicate key: " ^ str_tr itr);
          if lam_family && q_eq lam q_zero && List.length pend = 1 then begin
            let (_, s, a, s1, a1, rw) = List.hd pend in
            let q0 = fst !state in
            let x = one_step p.sl_alpha p.sl_g q0 s a s1 rw (target_row q0 s1 a1) in
            let expect = upd2 q0 s a x in
            List.iteri (fun si (er, ir) -> List.iteri (fun ai (e, v) ->
                if not (if ex then q_eq e v else q_le (q_abs (q_sub e v)) atol) then
                  oracle_fail "lambda0_is_one_step" site
                    (Printf.sprintf "lambda is 0 but entry (%d,%d) is %s, the one-step expected backup gives %s" si ai (string_of_q v) (string_of_q e)))
                (List.combine er ir)) (List.combine expect iq)
          end;
          if List.length itr < List.length (snd !state) + List.length pend then removed := true;
          let tie = ref false in
          let agrees ~legacy tol' =
            let (mq, mtr) = List.fold_left (fun st ((_, s, _, s1, _, _) as e) ->
                if kind = "octl" && (near_tie (matrix_row (fst st) s1) || near_tie (matrix_row (fst st) s)) then tie := true;
                step_with ~legacy tol' st e) !state pend in
            cmp_tab ~abs_tol:atol ~exact:ex (kind ^ "_step_q") site mq iq;
            cmp_traces ~exact:ex (kind ^ "_step_traces") site mtr itr in
          (try agrees ~legacy:false tol with Disagreement (c0, s0, d0) ->
             (* general regime only: a trace whose decayed value sits within rounding of the cut-off may be
                cut by one side and kept by the other; accept if a cut-off moved by 1e-9 reproduces the dump *)
             let eps9 = q_mul tol9 (q_add q_one (q_abs tol)) in
             let ok_pert ~legacy t = (try agrees ~legacy t; true with Disagreement _ -> false) in
             if (not ex) && (!tie || ok_pert ~legacy:false (q_add tol eps9) || ok_pert ~legacy:false (q_sub tol eps9)) then incr ill
             else if kind = "octl" && k <> "ql" && ok_pert ~legacy:true tol then
               (* O: the dump is what the unrepaired OffPolicyControl computes — the trace cut used the greedy
                  action of s1 instead of the documented target probability of the pair (s,a) *)
               oracle_fail "documented_trace_discount" site
                 ("traces were cut with the greedy action of s1, not with the epsilon-greedy target probability of the acted pair (s,a): impl traces " ^ str_tr itr ^ "; " ^ d0)
             else raise (Disagreement (c0, s0, d0)));
          state := (iq, itr); pending := []
        end) steps;
    (n >= 2 && !removed, kind ^ "_" ^ k ^ (if nsets > 0 then "_setters" else "") ^ (if !ill > 0 then "_ill_conditioned" else ""))
  | "ps" | "psq" | "psn" ->
    let ns = next_int c in let na = next_int c in
    let g = next_q c in let theta = next_q c in
    (* "psn": a query-only model (tables s,a,s1) driving the non-Eigen branch; no Bellman oracle there
       (probabilities <= 1e-6 are dropped by the code, which is not a backup of the stated model) *)
    let eigen = kind <> "psn" in
    let tm = if eigen then List.init na (fun _ -> List.init ns (fun _ -> List.init ns (fun _ -> next_q c)))
             else List.init ns (fun _ -> List.init na (fun _ -> List.init ns (fun _ -> next_q c))) in
    let rm = if eigen then List.init ns (fun _ -> List.init na (fun _ -> next_q c)) else [] in
    let rm3 = if eigen then [] else List.init ns (fun _ -> List.init na (fun _ -> List.init ns (fun _ -> next_q c))) in
    let m = { nS = nat_of_int ns; nA = nat_of_int na; p = (if eigen then tm else []); r = rm; gam = g } in
    let gm = { gS = nat_of_int ns; gA = nat_of_int na; gT = (if eigen then [] else tm); gRw = rm3; ggam = g } in
    let do_step st s a = if eigen then ps_step m theta st s a else ps_step_ne gm theta st s a in
    let do_batch n st ch = if eigen then ps_batch m theta n st ch else ps_batch_ne gm theta n st ch in
    let init_st = if eigen then ps_init m else ps_init_g gm in
    let site = "PrioritizedSweeping::stepUpdateQ" in
    let read_dump () =
      let iq = read_table r ns na in
      let iv = List.init ns (fun _ -> next_q r) in
      let ia = List.init ns (fun _ -> next_nat r) in
      let iqu = next_list r (fun r -> let s = next_nat r in let a = next_nat r in let pr = next_q r in ((s, a), pr)) in
      let nh = next_int r in
      (iq, iv, ia, iqu, nh) in
    let key_of ((s, a), _) = (int_of_nat s, int_of_nat a) in
    let sort_qu l = List.sort (fun x y -> compare (key_of x) (key_of y)) l in
    let str_qu l = String.concat " " (List.map (fun ((s, a), pr) -> Printf.sprintf "(%d,%d:%s)" (int_of_nat s) (int_of_nat a) (string_of_q pr)) l) in
    let params_small = small g && small theta && List.for_all small_tab tm && small_tab rm && List.for_all small_tab rm3 in
    let theta0 = q_eq theta q_zero in
    (* O: invariant of the theorem (theta = 0) on the implementation's own state *)
    let oracle ~ex (iq, iv, ia, iqu, nh) (donel : (nat * nat) list) =
      if nh <> List.length iqu then oracle_fail "ps_invariant" site "queueHandles_ and queue_ sizes differ";
      if not (uniq_keysb (List.map (fun ((s, a), pr) -> ((s, a), pr)) iqu)) then oracle_fail "ps_invariant" site ("duplicate queue key: " ^ str_qu iqu);
      if theta0 && eigen then begin
        let e = if ex then q_zero else q_mul tol9 (q_add q_one (List.fold_left (fun acc x -> q_max acc (q_abs x)) q_zero iv)) in
        if not (ps_invb m e iq iv (List.map fst iqu) donel) then
          oracle_fail "ps_invariant" site (Printf.sprintf "a backed-up pair is neither queued nor Bellman-consistent: q %s v %s queue %s" (str_tab iq) (str_qs iv) (str_qu iqu))
      end in
    (* C: compare a model state with a dump *)
    let matches ~ex (st : ps_state) (iq, iv, ia, iqu, _) : string option =
      let veq x y = if ex then q_eq x y else q_close x y in
      let bad = ref None in
      let fail msg = if !bad = None then bad := Some msg in
      List.iteri (fun s (mr, ir) -> List.iteri (fun a (x, y) -> if not (veq x y) then
          fail (Printf.sprintf "q(%d,%d): model %s impl %s" s a (string_of_q x) (string_of_q y))) (List.combine mr ir)) (List.combine st.ps_q iq);
      List.iteri (fun s (x, y) -> if not (veq x y) then fail (Printf.sprintf "v(%d): model %s impl %s" s (string_of_q x) (string_of_q y))) (List.combine st.ps_v iv);
      (* greedy actions: compared only when the model-side maximum is separated *)
      List.iteri (fun s (x, y) -> if ex && int_of_nat x <> int_of_nat y then fail (Printf.sprintf "action(%d): model %d impl %d" s (int_of_nat x) (int_of_nat y))) (List.combine st.ps_acts ia);
      let mq = sort_qu st.ps_queue and iq' = sort_qu iqu in
      let border pr = (not ex) && q_le pr (q_add theta (q_mul tol9 (q_add q_one (q_abs theta)))) in
      let rec go a b = match a, b with
        | [], [] -> ()
        | x :: a', y :: b' when key_of x = key_of y ->
          if not (veq (snd x) (snd y)) then fail (Printf.sprintf "priority of %s: model %s impl %s" (str_qu [x]) (string_of_q (snd x)) (string_of_q (snd y)));
          go a' b'
        | x :: a', (y :: _ as b') when key_of x < key_of y -> if not (border (snd x)) then fail ("queued only in the model: " ^ str_qu [x]); go a' b'
        | x :: a', [] -> if not (border (snd x)) then fail ("queued only in the model: " ^ str_qu [x]); go a' []
        | a', y :: b' -> if not (border (snd y)) then fail ("queued only in the implementation: " ^ str_qu [y]); go a' b' in
      go mq iq';
      !bad in
    let resync (iq, iv, ia, iqu, _) donel = { ps_q = iq; ps_v = iv; ps_acts = ia; ps_queue = iqu; ps_done = donel } in
    if kind <> "psq" then begin
      let nops = next_int c in
      let st = ref init_st in
      let queued_seen = ref false in
      let inconclusive = ref 0 in
      for _ = 1 to nops do
        let op = next c in
        let ex = params_small && small_tab_n 20 !st.ps_q && List.for_all (small_n 20) !st.ps_v && List.for_all (fun (_, pr) -> small_n 20 pr) !st.ps_queue in
        (match op with
         | "s" ->
           let s = next_nat c in let a = next_nat c in
           let d = read_dump () in
           let donel = (s, a) :: !st.ps_done in
           oracle ~ex d donel;
           let st' = do_step !st s a in
           (match matches ~ex st' d with Some msg -> disagree "ps_step" site msg | None -> ());
           st := resync d donel
         | "b" ->
           let n = next_nat c in
           let tops = next_nats r in
           let rec pairs l = match l with x :: y :: t -> (x, y) :: pairs t | _ -> [] in
           let ch = pairs tops in
           let d = read_dump () in
           let donel = List.rev_append ch !st.ps_done in
           oracle ~ex d donel;
           (match do_batch n !st ch with
            | PsBadChoice ->
              (* outside the exact regime two priorities may be tied up to rounding after the first pop *)
              if not ex then incr inconclusive else
              disagree "ps_batch_top" "PrioritizedSweeping::batchUpdateQ"
                ("queue_.top() sequence " ^ str_nats tops ^ " is not a sequence of maximal queued pairs of the model; queue " ^ str_qu !st.ps_queue)
            | PsOk st' -> (match matches ~ex st' d with Some msg -> disagree "ps_batch" "PrioritizedSweeping::batchUpdateQ" msg | None -> ()));
           st := resync d donel
         | "B" ->
           let n = next_int c in
           let d = read_dump () in
           (* search over the tie-breaking choices of queue_.top() *)
           let budget = ref 300 in
           let found = ref None in
           let rec dfs k (cur : ps_state) (popped : (nat * nat) list) =
             if !found <> None || !budget <= 0 then ()
             else if k = 0 || cur.ps_queue = [] then begin
               decr budget;
               if matches ~ex cur d = None then found := Some popped
             end else
               List.iter (fun (key, _) ->
                   if is_top cur.ps_queue key then
                     match do_batch (S O) cur [key] with
                     | PsOk nxt -> dfs (k - 1) nxt (key :: popped)
                     | PsBadChoice -> ()) cur.ps_queue in
           dfs n !st [];
           (match !found with
            | Some popped ->
              let donel = List.rev_append popped !st.ps_done in
              oracle ~ex d donel; st := resync d donel
            | None ->
              if ex && !budget > 0 then
                disagree "ps_batch" "PrioritizedSweeping::batchUpdateQ" "no sequence of maximal-priority pops of the model reproduces the implementation's state"
              else begin incr inconclusive; let (_, _, _, _, _) = d in st := resync d !st.ps_done end)
         | o -> failwith ("unknown ps op " ^ o));
        if !st.ps_queue <> [] then queued_seen := true
      done;
      (!queued_seen, kind ^ (if theta0 then "_theta0" else "_theta") ^ (if params_small then "_dyadic" else "_general") ^ (if !inconclusive > 0 then "_inconclusiveB" else ""))
    end else begin
      let rounds = next_int r in
      let (iq, iv, ia, iqu, nh) as d = read_dump () in
      let all_pairs = List.concat (List.init ns (fun s -> List.init na (fun a -> (nat_of_int s, nat_of_int a)))) in
      oracle ~ex:false d all_pairs;
      if iqu = [] && theta0 then begin
        (* quiescent with theta = 0: Q is a fixed point of the Bellman operator (up to rounding), hence
           within residual/(1-gamma) of value iteration's limit *)
        let e = q_mul tol9 (q_add q_one (List.fold_left (fun acc x -> q_max acc (q_abs x)) q_zero iv)) in
        if not (ps_bellmanb m e iq) then
          oracle_fail "ps_quiescent_is_bellman" "PrioritizedSweeping::batchUpdateQ" ("empty queue but Q is not a Bellman fixed point: " ^ str_tab iq)
      end;
      (rounds > 0, "psq" ^ (if iqu = [] then "_quiescent" else "_budget"))
    end
  | "dyna" ->
    let ns = next_int c in let na = next_int c in
    let alpha = ref (next_q c) in let g = next_q c in
    let nops = next_int c in
    let site = "DynaQ::stepUpdateQ" in
    let st = ref (qzero (nat_of_int ns) (nat_of_int na), ([] : (nat * nat) list)) in
    let rs = ref [] in
    let batches = ref 0 in
    for _ = 1 to nops do
      let op = next c in
      let ex = small !alpha && small g && small_tab (fst !st) in
      let st' =
        (match op with
         | "s" ->
           let s = next_nat c in let a = next_nat c in let s1 = next_nat c in let rw = next_q c in
           rs := rw :: !rs;
           dyna_step !alpha g !st (((s, a), s1), rw)
         | "b" ->
           let n = next_int c in
           let samples = List.init n (fun _ -> let s1 = next_nat c in let rw = next_q c in (s1, rw)) in
           let asked = next_list r (fun r -> let s = next_nat r in let a = next_nat r in (s, a)) in
           incr batches;
           let vis = snd !st in
           if vis = [] then begin
             if asked <> [] then disagree "dyna_batch" "DynaQ::batchUpdateQ" "model sampled although nothing was visited"; !st
           end else begin
             if List.length asked <> n then disagree "dyna_batch" "DynaQ::batchUpdateQ" "number of model samples differs from N";
             let index_of (s, a) =
               let rec go i l = match l with
                 | [] -> disagree "dyna_batch" "DynaQ::batchUpdateQ" (Printf.sprintf "sampled pair (%d,%d) was never visited" (int_of_nat s) (int_of_nat a))
                 | (s', a') :: t -> if int_of_nat s = int_of_nat s' && int_of_nat a = int_of_nat a' then i else go (i + 1) t in
               go 0 vis in
             let draws = List.map2 (fun k (s1, rw) -> rs := rw :: !rs; ((nat_of_int (index_of k), s1), rw)) asked samples in
             (match dyna_batch !alpha g !st draws with Some x -> x | None -> disagree "dyna_batch" "DynaQ::batchUpdateQ" "model: draw out of range")
           end
         | "a" -> alpha := next_q c; !st
         | o -> failwith ("unknown dyna op " ^ o)) in
      let impl = read_table r ns na in
      (match box_of g !rs with Some (lo, hi) -> check_box ~exact:false "dynaq_bounded" site lo hi impl | None -> ());
      cmp_tab ~exact:(ex && op = "s") "dyna_step" site (fst st') impl;
      st := (impl, snd st')
    done;
    (!batches > 0 && snd !st <> [], "dyna")
  | "dyna2" ->
    let ns = next_int c in let na = next_int c in
    let alpha = next_q c in let g = next_q c in let lam = next_q c in let tol = next_q c in
    let terms = List.map int_of_nat (next_nats c) in
    let nops = next_int c in
    let site = "Dyna2::stepUpdateQ" in
    let z = qzero (nat_of_int ns) (nat_of_int na) in
    let p0 = sl_ctor alpha g lam tol in
    let st = ref ((p0, (z, ([] : tr list))), (p0, (z, ([] : tr list)))) in
    let batches = ref 0 and setters = ref 0 in
    let set_perm f = let ((pp, x), t) = !st in st := ((f pp, x), t) in
    let set_tran f = let (pm, (pt, x)) = !st in st := (pm, (f pt, x)) in
    for _ = 1 to nops do
      let op = next c in
      let ((pp, (qp0, trp0)), (pt, (qt0, trt0))) = !st in
      let ex = small pp.sl_alpha && small pp.sl_g && small pp.sl_lam && small pt.sl_lam && small pp.sl_tol
               && small_tab_n 18 qp0 && small_tab_n 18 qt0 && small_tr trp0 && small_tr trt0 in
      let stepped = ref None in
      (match op with
       | "s" ->
         let s = next_nat c in let a = next_nat c in let s1 = next_nat c in let a1 = next_nat c in let rw = next_q c in
         stepped := Some (s, a, s1, a1, rw);
         st := d2_step !st ((((s, a), s1), a1), rw)
       | "b" ->
         let inits = next_nat c in let n = next_int c in let a0 = next_nat c in
         let draws = List.init n (fun _ ->
             let s1 = next_nat c in let rw = next_q c in let a1 = next_nat c in let ar = next_nat c in
             ((((s1, rw), a1), List.mem (int_of_nat s1) terms), ar)) in
         incr batches;
         st := d2_batch !st inits a0 draws
       | "r" -> st := d2_reset !st
       | "P" -> incr setters; let v = next_q c in set_perm (fun p -> sl_set_lambda p v)
       | "Q" -> incr setters; let v = next_q c in set_tran (fun p -> sl_set_lambda p v)
       | "T" -> incr setters; let v = next_q c in set_perm (fun p -> sl_set_tol p v); set_tran (fun p -> sl_set_tol p v)
       | o -> failwith ("unknown dyna2 op " ^ o));
      let iqp = read_table r ns na in let itp = read_traces r in
      let iqt = read_table r ns na in let itt = read_traces r in
      let ((pp', (mqp, mtp)), (pt', (mqt, mtt))) = !st in
      (* O *)
      if not (uniq_keysb itp) then oracle_fail "traces_unique_keys" site ("permanent learner, duplicate key: " ^ str_tr itp);
      if not (uniq_keysb itt) then oracle_fail "traces_unique_keys" site ("transient learner, duplicate key: " ^ str_tr itt);
      (match !stepped with
       | Some (s, a, s1, a1, rw) ->
         if q_le pp'.sl_tol q_one && not (traces_inb pp'.sl_tol itp) then oracle_fail "trace_range" site ("permanent learner: " ^ str_tr itp);
         if q_le pt'.sl_tol q_one && not (traces_inb pt'.sl_tol itt) then oracle_fail "trace_range" site ("transient learner: " ^ str_tr itt);
         let check_l0 name (p : sl_par) q0 iq =
           if q_eq p.sl_lam q_zero then begin
             let x = one_step p.sl_alpha p.sl_g q0 s a s1 rw (point_row (nat_of_int na) a1) in
             let expect = upd2 q0 s a x in
             List.iteri (fun si (er, ir) -> List.iteri (fun ai (e, v) ->
                 if not (if ex then q_eq e v else q_close e v) then
                   oracle_fail "lambda0_is_one_step" site
                     (Printf.sprintf "%s learner: lambda is 0 but entry (%d,%d) is %s, one-step SARSA gives %s" name si ai (string_of_q v) (string_of_q e)))
                 (List.combine er ir)) (List.combine expect iq)
           end in
         check_l0 "permanent" pp qp0 iqp; check_l0 "transient" pt qt0 iqt
       | None -> ());
      (* C *)
      cmp_tab ~exact:(ex && op <> "b") "dyna2_perm_q" site mqp iqp;
      cmp_traces ~exact:(ex && op <> "b") "dyna2_perm_traces" site mtp itp;
      cmp_tab ~exact:(ex && op <> "b") "dyna2_trans_q" site mqt iqt;
      cmp_traces ~exact:(ex && op <> "b") "dyna2_trans_traces" site mtt itt;
      st := ((pp', (iqp, itp)), (pt', (iqt, itt)))
    done;
    (!batches > 0, "dyna2" ^ (if !setters > 0 then "_setters" else ""))
  | "dqstar" ->
    (* round 6: both tables at Q* (setQFunction), one stepUpdateQ per successor state, table reset before each *)
    let ns = next_int c in let na = next_int c in
    let alpha = next_q c in let g = next_q c in
    let tm = List.init na (fun _ -> List.init ns (fun _ -> List.init ns (fun _ -> next_q c))) in
    let qs = read_table c ns na in
    let rm = read_table c ns na in
    let m = { nS = nat_of_int ns; nA = nat_of_int na; p = tm; r = rm; gam = g } in
    if not (ps_bellmanb m q_zero qs) then failwith "dqstar: generated table is not Q* of the generated MDP";
    let q2 = List.map (List.map (fun x -> q_add x x)) qs in
    let site = "DoubleQLearning::stepUpdateQ" in
    let np = next_int c in
    let heads = ref 0 and tails = ref 0 and moved = ref false and det = ref false in
    let tab_eq t t' = List.for_all2 (fun r r' -> List.for_all2 q_eq r r') t t' in
    for _ = 1 to np do
      let s = next_nat c in let a = next_nat c in
      let rw = matrix_get rm s a in
      let prow = matrix_row (List.nth tm (int_of_nat a)) s in
      let dumps = List.init ns (fun s1i ->
          let s1 = nat_of_int s1i in
          let coin = (next_int r) <> 0 in
          if coin then incr heads else incr tails;
          let ia = read_table r ns na in let ic = read_table r ns na in let ib = read_table r ns na in
          (* O: documented rule on the documented tables A, B (here A = B = Q*, so B(s1, argmax A(s1,.)) = max Q*(s1,.)) *)
          let tgt = q_add (matrix_get qs s a)
              (q_mul alpha (q_sub (q_add rw (q_mul g (maxl (matrix_row qs s1)))) (matrix_get qs s a))) in
          let want = upd2 qs s a tgt in
          let (wa, wb) = if coin then (want, qs) else (qs, want) in
          if not (tab_eq ia wa && tab_eq ib wb) then
            oracle_fail "doubleq_documented_rule" site
              (Printf.sprintf "coin %b sample (%d,%d,%d): A %s B %s, documented A %s B %s" coin (int_of_nat s) (int_of_nat a) s1i
                 (str_tab ia) (str_tab ib) (str_tab wa) (str_tab wb));
          if not (tab_eq ic (List.map2 (List.map2 q_add) ia ib)) then
            oracle_fail "doubleq_documented_rule" "DoubleQLearning::getQFunction" "getQFunction <> A + B";
          if not (q_eq tgt (matrix_get qs s a)) then moved := true;
          (* O: deterministic clause *)
          if q_eq (List.nth prow s1i) q_one then begin
            det := true;
            if not (tab_eq ia qs && tab_eq ic q2) then
              oracle_fail "doubleq_optimal_fixpoint" site
                (Printf.sprintf "deterministic (%d,%d)->%d from Q*: qa %s qc %s" (int_of_nat s) (int_of_nat a) s1i (str_tab ia) (str_tab ic))
          end;
          (coin, s1, ia, ic, ib)) in
      (* O: fixed point in expectation over s1 ~ T(s,a,.) *)
      let at f s1 = let (coin, _, ia, ic, ib) = List.nth dumps (int_of_nat s1) in f coin ia ic ib in
      let ec = dq_expected m s a (at (fun _ _ ic _ -> matrix_get ic s a)) in
      let ex = dq_expected m s a (at (fun coin ia _ ib -> matrix_get (if coin then ia else ib) s a)) in
      let eo = dq_expected m s a (at (fun coin ia _ ib -> matrix_get (if coin then ib else ia) s a)) in
      if not (q_eq ec (matrix_get q2 s a) && q_eq ex (matrix_get qs s a) && q_eq eo (matrix_get qs s a)) then
        oracle_fail "doubleq_optimal_expected_fixpoint" site
          (Printf.sprintf "(%d,%d): E[qc'] = %s (2Q* = %s), E[updated table'] = %s, E[other table'] = %s (Q* = %s)"
             (int_of_nat s) (int_of_nat a) (string_of_q ec) (string_of_q (matrix_get q2 s a)) (string_of_q ex) (string_of_q eo)
             (string_of_q (matrix_get qs s a)));
      (* C: model step from the stored pair (Qstar, 2 Qstar) *)
      List.iter (fun (coin, s1, ia, ic, _) ->
          let (ma, mc) = dq_step alpha g (qs, q2) ((((coin, s), a), s1), rw) in
          cmp_tab ~exact:true "dq_step_qa" site ma ia; cmp_tab ~exact:true "dq_step_qc" site mc ic) dumps
    done;
    (!heads > 0 && !tails > 0 && !moved, "dqstar" ^ (if !det then "_det" else "_sto"))
  | k -> failwith ("unknown case kind " ^ k)

let () = main_loop judge
