(* ml/C11/driver.ml — judge for property C11.
   O: bounds / trace range / unique keys / lambda=0 one-step / PS invariant evaluated on the
      implementation's dumped state (Coq-extracted checkers).
   C: the extracted model is stepped from the implementation's previous dump (re-synchronised at
      every dump, so floating rounding never accumulates) and compared with the next dump:
      exactly while every number involved is a small dyadic, else within 1e-9. *)
open Model
open Vio

(* ---------- sizes of numerals ---------- *)
let rec pos_bits (p : positive) : int = match p with XH -> 1 | XO p' | XI p' -> 1 + pos_bits p'
let z_bits (x : z) : int = match x with Z0 -> 0 | Zpos p | Zneg p -> pos_bits p
(* small dyadic: one learner step on such inputs is computed without rounding by the C++ *)
let small_n (db : int) (x : q) : bool = let x = vio_qred x in pos_bits (vio_qden x) <= db && z_bits (vio_qnum x) <= db + 8
let small = small_n 24
let small_tab (t : q list list) = List.for_all (List.for_all small) t
let small_tab_n db (t : q list list) = List.for_all (List.for_all (small_n db)) t
(* 0 or 1/2^k: dividing by it is exact *)
let pow2inv (x : q) : bool = let x = vio_qred x in (match vio_qnum x with Zpos XH -> true | _ -> false)

let q_div = vio_qdiv
let q_min a b = if q_le a b then a else b
let qi = q_of_int

let tol9 = q_of_ints 1 1000000000

let read_table (r : cursor) (ns : int) (na : int) : q list list =
  List.init ns (fun _ -> List.init na (fun _ -> next_q r))

let str_tab (t : q list list) = String.concat " | " (List.map str_qs t)

(* compare two tables entrywise *)
let cmp_tab ~(exact : bool) (clause : string) (site : string) (m : q list list) (i : q list list) =
  if List.length m <> List.length i then disagree clause site "row count differs";
  List.iteri (fun s (mr, ir) ->
      if List.length mr <> List.length ir then disagree clause site "row length differs";
      List.iteri (fun a (x, y) ->
          let ok = if exact then q_eq x y else q_close x y in
          if not ok then
            disagree clause site (Printf.sprintf "entry (%d,%d): model %s impl %s%s" s a (string_of_q x) (string_of_q y)
                                    (if exact then " (exact regime)" else "")))
        (List.combine mr ir))
    (List.combine m i)

(* box with slack (slack 0 in the exact regime) *)
let check_box ~(exact : bool) clause site lo hi (t : q list list) =
  let sl b = if exact then q_zero else q_mul tol9 (q_add q_one (q_abs b)) in
  if not (in_boxb (q_sub lo (sl lo)) (q_add hi (sl hi)) t) then
    oracle_fail clause site (Printf.sprintf "entry outside [%s,%s]: %s" (string_of_q lo) (string_of_q hi) (str_tab t))

let box_of (g : q) (rs : q list) : (q * q) option =
  if q_lt g q_one then begin
    let rmin = List.fold_left q_min q_zero rs and rmax = List.fold_left q_max q_zero rs in
    let d = q_sub q_one g in Some (q_div rmin d, q_div rmax d)
  end else None

let dump_at every n i = (i + 1) mod every = 0 || i + 1 = n

(* ---------- traces ---------- *)
type tr = (nat * nat) * q
let read_traces (r : cursor) : tr list =
  next_list r (fun r -> let s = next_nat r in let a = next_nat r in let e = next_q r in ((s, a), e))
let tr_key (((s, a), e) : tr) = (int_of_nat s, int_of_nat a)
let sort_tr (l : tr list) = List.sort (fun x y -> let c = compare (tr_key x) (tr_key y) in if c <> 0 then c else q_cmp (snd x) (snd y)) l
let str_tr (l : tr list) = String.concat " " (List.map (fun (((s, a), e) : tr) -> Printf.sprintf "(%d,%d,%s)" (int_of_nat s) (int_of_nat a) (string_of_q e)) l)
let cmp_traces ~exact clause site (m : tr list) (i : tr list) =
  let m = sort_tr m and i = sort_tr i in
  let bad () = disagree clause site (Printf.sprintf "traces differ (as multisets): model %s impl %s" (str_tr m) (str_tr i)) in
  if List.length m <> List.length i then bad ();
  List.iter2 (fun x y -> if tr_key x <> tr_key y then bad ();
               if not (if exact then q_eq (snd x) (snd y) else q_close (snd x) (snd y)) then bad ()) m i
let small_tr (l : tr list) = List.for_all (fun (_, e) -> small_n 12 e) l

let matrix_row (m : q list list) (s : nat) : q list = List.nth m (int_of_nat s)
let matrix_get (m : q list list) (s : nat) (a : nat) : q = List.nth (matrix_row m s) (int_of_nat a)

let judge _id (c : cursor) (r : cursor) : bool * string =
  let kind = next c in
  match kind with
  | "ql" | "hyst" | "sarsa" | "esarsa" ->
    let ns = next_int c in let na = next_int c in
    let alpha = next_q c in
    let beta = if kind = "hyst" then next_q c else q_zero in
    let g = next_q c in
    let every = next_int c in let n = next_int c in
    (* steps: (s, a, s1, a1, r, prow) *)
    let steps = List.init n (fun _ ->
        let s = next_nat c in let a = next_nat c in let s1 = next_nat c in
        let a1 = if kind = "sarsa" then next_nat c else O in
        let rw = next_q c in
        let prow = if kind = "esarsa" then List.init na (fun _ -> next_q c) else [] in
        (s, a, s1, a1, rw, prow)) in
    let box = box_of g (List.map (fun (_, _, _, _, rw, _) -> rw) steps) in
    let site = (match kind with "ql" -> "QLearning::stepUpdateQ" | "hyst" -> "HystereticQLearning::stepUpdateQ"
                              | "sarsa" -> "SARSA::stepUpdateQ" | _ -> "ExpectedSARSA::stepUpdateQ") in
    let clause = (match kind with "ql" -> "ql_bounded" | "hyst" -> "hysteretic_bounded"
                                | "sarsa" -> "sarsa_bounded" | _ -> "expected_sarsa_bounded") in
    let step q (s, a, s1, a1, rw, prow) =
      match kind with
      | "ql" -> ql_step alpha g q (((s, a), s1), rw)
      | "hyst" -> hyst_step alpha beta g q (((s, a), s1), rw)
      | "sarsa" -> sarsa_step alpha g q ((((s, a), s1), a1), rw)
      | _ -> esarsa_step alpha g q ((((s, a), s1), rw), prow) in
    let params_small = small alpha && small beta && small g in
    let state = ref (qzero (nat_of_int ns) (nat_of_int na)) in
    let exact = ref params_small in
    let pending = ref [] in
    List.iteri (fun i st ->
        pending := st :: !pending;
        if dump_at every n i then begin
          let impl = read_table r ns na in
          let pend = List.rev !pending in
          let ex = !exact && small_tab !state && List.for_all (fun (_, _, _, _, rw, pr) -> small rw && List.for_all small pr) pend
                   && List.length pend <= 2 in
          (match box with Some (lo, hi) -> check_box ~exact:ex clause site lo hi impl | None -> ());
          let m = List.fold_left step !state pend in
          cmp_tab ~exact:ex (kind ^ "_step") site m impl;
          state := impl; pending := []
        end) steps;
    (n >= 2, kind ^ (if !exact then "" else "") ^ (if small g && small alpha then "_dyadic" else "_general"))
  | "dq" ->
    let ns = next_int c in let na = next_int c in
    let alpha = next_q c in let g = next_q c in
    let every = next_int c in let n = next_int c in
    let steps = List.init n (fun _ ->
        let s = next_nat c in let a = next_nat c in let s1 = next_nat c in let rw = next_q c in (s, a, s1, rw)) in
    let box = box_of g (List.map (fun (_, _, _, rw) -> rw) steps) in
    let site = "DoubleQLearning::stepUpdateQ" in
    let z = qzero (nat_of_int ns) (nat_of_int na) in
    let state = ref (z, z) in
    let pending = ref [] in
    let heads = ref 0 in
    List.iteri (fun i (s, a, s1, rw) ->
        let coin = (next_int r) <> 0 in
        if coin then incr heads;
        pending := ((((coin, s), a), s1), rw) :: !pending;
        if dump_at every n i then begin
          let ia = read_table r ns na in let ic = read_table r ns na in
          let pend = List.rev !pending in
          let ex = small alpha && small g && small_tab (fst !state) && small_tab (snd !state)
                   && List.for_all (fun ((((_, _), _), _), rw) -> small rw) pend && List.length pend <= 2 in
          (match box with
           | Some (lo, hi) ->
             let sl b = if ex then q_zero else q_mul tol9 (q_add q_one (q_abs b)) in
             if not (in_box2b (q_sub lo (sl lo)) (q_add hi (sl hi)) ia ic) then
               oracle_fail "doubleq_bounded" site (Printf.sprintf "qa or qc-qa outside [%s,%s]: qa %s qc %s" (string_of_q lo) (string_of_q hi) (str_tab ia) (str_tab ic))
           | None -> ());
          let (ma, mc) = List.fold_left (dq_step alpha g) !state pend in
          cmp_tab ~exact:ex "dq_step_qa" site ma ia;
          cmp_tab ~exact:ex "dq_step_qc" site mc ic;
          state := (ia, ic); pending := []
        end) steps;
    (n >= 2 && !heads > 0 && !heads < n, "dq" ^ (if small g && small alpha then "_dyadic" else "_general"))
  | "sarsal" | "octl" | "oevl" ->
    let k = if kind = "sarsal" then "sarsal" else next c in
    let ns = next_int c in let na = next_int c in
    let alpha = next_q c in let g = next_q c in let lam = next_q c in let tol = next_q c in
    let eps = if kind = "octl" then next_q c else q_zero in
    let read_mat () = List.init ns (fun _ -> List.init na (fun _ -> next_q c)) in
    let tgt = if kind = "oevl" then read_mat () else [] in
    let beh = if kind = "sarsal" then [] else read_mat () in
    let every = next_int c in let n = next_int c in
    let steps = List.init n (fun _ ->
        let s = next_nat c in let a = next_nat c in let s1 = next_nat c in
        let a1 = if kind = "sarsal" then next_nat c else O in
        let rw = next_q c in (s, a, s1, a1, rw)) in
    let ok = (match k with "ql" -> KQL | "retrace" -> KRetrace | "tb" -> KTreeBackup | "is" -> KImportance | _ -> KQL) in
    let site = (match kind with "sarsal" -> "SARSAL::stepUpdateQ" | "octl" -> "OffPolicyControl::stepUpdateQ" | _ -> "OffPolicyEvaluation::stepUpdateQ") in
    let step st (s, a, s1, a1, rw) =
      match kind with
      | "sarsal" -> sarsal_step alpha g lam tol st ((((s, a), s1), a1), rw)
      | "octl" -> offctrl_step ok alpha g lam tol eps (nat_of_int na) st ((((s, a), s1), rw), matrix_get beh s a)
      | _ -> offeval_step ok alpha g lam tol st ((((((s, a), s1), rw), matrix_row tgt s1), matrix_get tgt s a), matrix_get beh s a) in
    (* the target row of the one-step expected backup *)
    let target_row (q : q list list) (s1 : nat) (a1 : nat) : q list =
      match kind with
      | "sarsal" -> point_row (nat_of_int na) a1
      | "octl" -> egreedy_row eps (matrix_row q s1)
      | _ -> matrix_row tgt s1 in
    let lam_family = (kind = "sarsal" || k <> "is") in
    let params_small = small alpha && small g && small lam && small tol && small eps
                       && small_tab tgt && small_tab beh
                       && (kind <> "octl" || na = 1 || na = 2 || na = 4)
                       && (not (k = "retrace" || k = "is") || List.for_all (List.for_all pow2inv) beh) in
    let state = ref (qzero (nat_of_int ns) (nat_of_int na), ([] : tr list)) in
    let pending = ref [] in
    let removed = ref false in
    List.iteri (fun i st ->
        pending := st :: !pending;
        if dump_at every n i then begin
          let iq = read_table r ns na in
          let itr = read_traces r in
          let pend = List.rev !pending in
          let ex = params_small && small_tab_n 18 (fst !state) && small_tr (snd !state)
                   && List.for_all (fun (_, _, _, _, rw) -> small rw) pend && List.length pend <= 1 in
          (* O: trace range, unique keys, lambda = 0 one-step backup *)
          if lam_family && q_le tol q_one && not (traces_inb tol itr) then
            oracle_fail "trace_range" site ("stored trace outside [tol,1]: " ^ str_tr itr);
          if not (uniq_keysb itr) then oracle_fail "traces_unique_keys" site ("duplicate key: " ^ str_tr itr);
          if lam_family && q_eq lam q_zero && List.length pend = 1 then begin
            let (s, a, s1, a1, rw) = List.hd pend in
            let q0 = fst !state in
            let x = one_step alpha g q0 s a s1 rw (target_row q0 s1 a1) in
            let expect = upd2 q0 s a x in
            List.iteri (fun si (er, ir) -> List.iteri (fun ai (e, v) ->
                if not (if ex then q_eq e v else q_close e v) then
                  oracle_fail "lambda0_is_one_step" site
                    (Printf.sprintf "entry (%d,%d) is %s, one-step expected backup gives %s" si ai (string_of_q v) (string_of_q e)))
                (List.combine er ir)) (List.combine expect iq)
          end;
          let (mq, mtr) = List.fold_left step !state pend in
          if List.length itr < List.length (snd !state) + List.length pend then removed := true;
          cmp_tab ~exact:ex (kind ^ "_step_q") site mq iq;
          cmp_traces ~exact:ex (kind ^ "_step_traces") site mtr itr;
          state := (iq, itr); pending := []
        end) steps;
    (n >= 2 && !removed, kind ^ "_" ^ k)
  | k -> failwith ("unknown case kind " ^ k)

let () = main_loop judge
