(* ml/C04/driver.ml — C04: value-function entries are executable plans; POMDP::Policy follows them. *)
open Model
open Vio
open Pomdpio

let tol = q_of_ints 1 100000000
let closeq a b = q_close ~atol:tol ~rtol:tol a b

let site_of = function
  | "ip" -> "IncrementalPruning::operator()" | "wit" -> "Witness::operator()" | "ls" -> "LinearSupport::operator()"
  | "pbvi" -> "PBVI::operator()" | "pbviw" -> "PBVI::operator()(model,v)" | "perseus" -> "PERSEUS::operator()" | "qmdp" -> "QMDP::operator()" | s -> s

(* parse the preorder dump of the Policy's decisions; returns the tree and the list of
   (hLeft, parent id, obs, action, new id) steps for the correspondence *)
let rec parse_kids (r : cursor) (nobs : int) (hleft : int) (pid : int) steps : ptree list =
  (* hleft = steps remaining after the parent's action; children at hleft = 0 are horizon-0 leaves *)
  List.init nobs (fun o -> o) |> List.map (fun o ->
      let a = next_int r in let nid = next_int r in
      steps := (hleft, pid, o, a, nid) :: !steps;
      let kids = if hleft > 0 then parse_kids r nobs (hleft - 1) nid steps else [] in
      PT (nat_of_int a, nat_of_int nid, kids))

let judge _id (c : cursor) (r : cursor) : bool * string =
  let kind = next c in
  match kind with
  | "plan" ->
    let alg = next c in let _repr = next c in let h = next_int c in
    let _nb = next_int c in let _minr = next c in let _seed = next c in
    let m = read_pomdp c in
    let s = int_of_nat m.pm.nS in let nobs = int_of_nat m.nO in
    let bs = read_beliefs c s in
    let site = site_of alg in
    (match peek r with "THROW" | "CRASH" | "TIMEOUT" | "SANITIZER" -> oracle_fail "solver_returns" site ("implementation did not return: " ^ String.concat " " (rest r)) | _ -> ());
    let vf = read_vf r in
    let hh = List.length vf - 1 in
    if hh < 0 then oracle_fail "horizon_count" site "empty value function";
    if hh > (if alg = "pbviw" then 2 * h else h) then oracle_fail "horizon_count" site "more horizons than requested";
    (* O1: every entry is a plan over the previous horizon (links in range, vector = back-up) *)
    (match vf with
     | v0 :: rest_ ->
       let rec walk prev rest t =
         match rest with
         | [] -> ()
         | l :: tl ->
           List.iteri (fun i (e : ventry) ->
               (* structure first (never masked by a finding about the VALUES of an entry): one link per observation, each in range *)
               if List.length e.obs <> nobs || List.exists (fun l -> int_of_nat l >= List.length prev) e.obs || int_of_nat e.act >= int_of_nat m.pm.nA then
                 oracle_fail "links_in_range" site (Printf.sprintf "horizon %d entry %d: %d links for %d observations, or a link / the action is out of range" t i (List.length e.obs) nobs)) l;
           List.iteri (fun i e -> if not (check_entry tol m prev e) then
                          oracle_fail "entry_is_plan" site (Printf.sprintf "horizon %d entry %d is not the plan of its links (or a link is out of range)" t i)) l;
           walk l tl (t + 1) in
       walk v0 rest_ 1
     | [] -> ());
    let last = List.nth vf hh in
    let nbel = next_int r in
    if nbel <> List.length bs then failwith "belief count mismatch";
    List.iter (fun b ->
        expect r "T";
        let a0 = next_int r in let id0 = next_int r in
        if hh >= 1 then begin
          let steps = ref [] in
          let kids = parse_kids r nobs (hh - 1) id0 steps in
          let tree = PT (nat_of_int a0, nat_of_int id0, kids) in
          let promised = vbest last b in
          (* O3: the first entry attains the maximum *)
          if id0 < 0 || id0 >= List.length last then oracle_fail "first_action_attains" "POMDP::Policy::sampleAction" "id out of range";
          let e0 = List.nth last id0 in
          let v0 = List.fold_left2 (fun acc x y -> q_add acc (q_mul x y)) q_zero e0.vals b in
          if not (closeq v0 promised) then oracle_fail "first_action_attains" "POMDP::Policy::sampleAction" "chosen entry does not attain the maximum";
          if int_of_nat e0.act <> a0 then oracle_fail "first_action_attains" "POMDP::Policy::sampleAction" "action differs from the chosen entry's";
          (* O2: executing the policy along every observation history earns what was promised *)
          let v0l = List.hd vf in
          let earned = tree_return m v0l tree b in
          if not (closeq earned promised) then
            oracle_fail "exec_matches_promise" site (Printf.sprintf "belief %s: promised %s, executing the stored links earns %s (incl. the horizon-0 entry's promise)" (str_qs b) (string_of_q promised) (string_of_q earned));
          (* C: the Policy model reproduces every decision *)
          (match policy_first vf (nat_of_int hh) b with
           | None -> disagree "policy_first" "POMDP::Policy::sampleAction" "model access out of range"
           | Some (_ma, mid) ->
             if int_of_nat mid <> id0 then begin
               (* accept only as a tie within rounding *)
               let em = List.nth last (int_of_nat mid) in
               let vm = List.fold_left2 (fun acc x y -> q_add acc (q_mul x y)) q_zero em.vals b in
               if not (q_close ~atol:(q_of_ints 1 1000000000000) ~rtol:(q_of_ints 1 1000000000000) vm v0) then
                 disagree "policy_first" "POMDP::Policy::sampleAction" "model and implementation pick different entries"
             end);
          List.iter (fun (hleft, pid, o, a, nid) ->
              match policy_step vf (nat_of_int hleft) (nat_of_int pid) (nat_of_int o) with
              | None -> disagree "policy_step" "POMDP::Policy::sampleAction(id,o,h)" "model access out of range"
              | Some (ma, mid) ->
                if int_of_nat ma <> a || int_of_nat mid <> nid then disagree "policy_step" "POMDP::Policy::sampleAction(id,o,h)" "model and implementation follow different links")
            !steps
        end;
        (* the rest of POMDP::Policy's public interface *)
        expect r "P";
        let gh = next_int r in let go = next_int r in let sa = next_int r in
        let hl = next_int r in let al = next_int r in let idl = next_int r in
        let psite = "POMDP::Policy::getActionProbability" in
        if gh <> hh || go <> nobs then oracle_fail "policy_dims" "POMDP::Policy::getH" "getH / getO differ from the value function's";
        let probs = List.init (int_of_nat m.pm.nA) (fun _ ->
            let p1 = float_of_string (next r) in let p2 = float_of_string (next r) in let p3 = float_of_string (next r) in (p1, p2, p3)) in
        (* O: each getActionProbability is the indicator of the action sampleAction returns at that horizon *)
        let top_a = if hh >= 1 then a0 else sa in
        (* the probabilities are those of the model (extracted policy_prob) when the model picks the same entries *)
        let qf x = q_of_float x in
        List.iteri (fun x (p1, p2, p3) ->
            let ind y = if x = y then 1.0 else 0.0 in
            if p1 <> ind sa then oracle_fail "policy_action_probability" psite "getActionProbability(b,a) is not the indicator of sampleAction(b)";
            if p2 <> ind top_a then oracle_fail "policy_action_probability" psite "getActionProbability(b,a,H) is not the indicator of sampleAction(b,H)";
            if p3 <> ind al then oracle_fail "policy_action_probability" psite "getActionProbability(b,a,h) is not the indicator of sampleAction(b,h)";
            (match policy_first vf (nat_of_int hl) b with
             | Some (ma, _) when int_of_nat ma = al ->
               if not (q_eq (policy_prob vf (nat_of_int hl) b (nat_of_int x)) (qf p3)) then disagree "policy_prob" psite "model and implementation probabilities differ"
             | _ -> ())) probs;
        let tot = List.fold_left (fun acc (p1, _, _) -> acc +. p1) 0.0 probs in
        if tot <> 1.0 then oracle_fail "policy_action_probability" psite "action probabilities do not sum to one";
        if hh >= 1 && sa <> a0 then oracle_fail "policy_action_probability" "POMDP::Policy::sampleAction(b)" "sampleAction(b) differs from sampleAction(b, H)";
        (* C: the lower-horizon decision is the model's (ties within rounding accepted as above) *)
        (match policy_first vf (nat_of_int hl) b with
         | None -> disagree "policy_first" "POMDP::Policy::sampleAction" "model access out of range"
         | Some (ma, mid) ->
           let l = List.nth vf hl in
           if idl < 0 || idl >= List.length l then oracle_fail "first_action_attains" "POMDP::Policy::sampleAction" "id out of range";
           let ei = List.nth l idl in
           if int_of_nat ei.act <> al then oracle_fail "first_action_attains" "POMDP::Policy::sampleAction" "action differs from the chosen entry's";
           if int_of_nat mid <> idl then begin
             let dotb (e : ventry) = List.fold_left2 (fun acc x y -> q_add acc (q_mul x y)) q_zero e.vals b in
             if not (q_close ~atol:(q_of_ints 1 1000000000000) ~rtol:(q_of_ints 1 1000000000000) (dotb (List.nth l (int_of_nat mid))) (dotb ei)) then
               disagree "policy_first" "POMDP::Policy::sampleAction" "model and implementation pick different entries at a lower horizon"
           end;
           ignore ma)) bs;
    (* probes beside the crossings of two entries: the entry sampleAction picks must attain the maximum there too *)
    expect r "X";
    let np = next_int r in
    for _k = 1 to np do
      let b0 = q_of_float (float_of_string (next r)) in let b1 = q_of_float (float_of_string (next r)) in
      let pa = next_int r in let pid = next_int r in
      let b = [b0; b1] in
      if pid < 0 || pid >= List.length last then oracle_fail "first_action_attains" "POMDP::Policy::sampleAction" "id out of range (probe beside a crossing)";
      let e = List.nth last pid in
      let dotb (x : ventry) = List.fold_left2 (fun acc u v -> q_add acc (q_mul u v)) q_zero x.vals b in
      let vmax = vbest last b in
      let slack = q_mul (q_of_ints 1 1000000000000) (q_add q_one (q_abs vmax)) in
      if q_lt (q_add (dotb e) slack) vmax then
        oracle_fail "first_action_attains" "POMDP::Policy::sampleAction"
          (Printf.sprintf "belief %s (beside a crossing): the chosen entry earns %s, the maximum is %s" (str_qs b) (string_of_q (dotb e)) (string_of_q vmax));
      if int_of_nat e.act <> pa then oracle_fail "first_action_attains" "POMDP::Policy::sampleAction" "action differs from the chosen entry's (probe beside a crossing)"
    done;
    (* O1b: the horizon-0 entries promise nothing, so that h executed steps earn the whole promise *)
    (match vf with
     | v0 :: _ -> List.iter (fun e -> List.iter (fun x -> if not (q_eq x q_zero) then
                     oracle_fail "terminal_is_zero" site "the horizon-0 entry is not the zero vector: executing h steps earns the promise minus its discounted value") e.vals) v0
     | [] -> ());
    (hh >= 2 && nobs >= 2, alg)
  | "csbb" ->
    let m = read_pomdp c in
    let s = int_of_nat m.pm.nS in let na = int_of_nat m.pm.nA in
    let nw = next_int c in
    let w = take_n nw (fun () -> { vals = take_n s (fun () -> next_q c); act = nat_of_int 0; obs = [] }) in
    let bs = read_beliefs c s in
    let site = "crossSumBestAtBelief" in
    (match peek r with "THROW" | "CRASH" | "TIMEOUT" | "SANITIZER" -> oracle_fail "solver_returns" site "implementation did not return" | _ -> ());
    let nbel = next_int r in
    if nbel <> List.length bs then failwith "belief count mismatch";
    let exact = List.mem (int_of_nat m.nO) [1; 2; 4; 8] in
    let same a b = if exact then q_eq a b else closeq a b in
    List.iter (fun b ->
        for a = 0 to na - 1 do
          let ia = next_int r in let iobs = next_nats r in
          let ivals = next_list r (fun c -> q_of_float (float_of_string (next c))) in
          let ival = q_of_float (float_of_string (next r)) in
          let ie = { vals = ivals; act = nat_of_int ia; obs = iobs } in
          (* O: the implementation's entry is a plan over w and its value is the look-ahead *)
          if not (check_entry tol m w ie) then oracle_fail "point_backup_is_plan" site "entry is not the plan of its links";
          let dotv = List.fold_left2 (fun acc x y -> q_add acc (q_mul x y)) q_zero ivals b in
          if not (closeq dotv ival) then oracle_fail "point_backup_value" site "reported value is not the entry's value at the belief";
          (* C: model *)
          let (me, mv) = csbb_row b (proj_row m w (nat_of_int a)) (nat_of_int a) m.pm.nS in
          if not (same mv ival) then disagree "csbb_row.value" site "model and implementation values differ";
          if List.map int_of_nat me.obs <> List.map int_of_nat iobs then begin
            (* a different link is acceptable only as a tie: same value promised *)
            if exact then disagree "csbb_row.links" site "model and implementation pick different links"
          end;
          if not (List.for_all2 same me.vals ivals) && (exact || List.map int_of_nat me.obs = List.map int_of_nat iobs) then
            disagree "csbb_row.values" site "model and implementation vectors differ"
        done;
        let ia = next_int r in let _iobs = next_nats r in let ival = q_of_float (float_of_string (next r)) in
        (* O: the best-action backup's value is the full one-step look-ahead of w at b (spec function
           lookahead_best, independent of the backup code; theorem best_action_backup_value) *)
        if not (closeq (lookahead_best m w b) ival) then
          oracle_fail "best_action_backup_value" site "best value is not the maximum over all actions of the one-step look-ahead of the previous surface";
        let (me, mv) = csbb_all m w b in
        if not (same mv ival) then disagree "csbb_all.value" site "best value differs";
        if exact && int_of_nat me.act <> ia then disagree "csbb_all.action" site "best action differs") bs;
    (nw >= 2 && int_of_nat m.nO >= 2, "csbb")
  | k -> failwith ("unknown case kind " ^ k)

let () = main_loop judge
