(* ml/C10/driver.ml — judge for C10's own models: O (independent meaning of the result, on the
   implementation's output) before C (checked-access model vs implementation).  The model saying UB
   on an input that satisfies the documented precondition is reported as an oracle failure (clause
   <routine>_no_UB); a sanitizer report on the same input is reported by the pipeline (clause no_UB). *)
open Model
open Vio

let ii = int_of_nat
let nats_eq (a : nat list) (b : nat list) = List.map ii a = List.map ii b
let rec take n l = if n <= 0 then [] else match l with [] -> [] | x :: t -> x :: take (n - 1) t
let rec drop n l = if n <= 0 then l else match l with [] -> [] | _ :: t -> drop (n - 1) t
let rec chunks k l = match l with [] -> [] | _ -> take k l :: chunks k (drop k l)
let next_n c n f = List.init n (fun _ -> f c)
let qs_eq a b = List.length a = List.length b && List.for_all2 q_eq a b
let str_tr (l : ((nat * nat) * q) list) =
  String.concat " " (List.map (fun ((s, a), e) -> Printf.sprintf "(%d,%d,%s)" (ii s) (ii a) (string_of_q e)) l)
let tr_eq (a : ((nat * nat) * q) list) b =
  List.length a = List.length b && List.for_all2 (fun ((s, x), e) ((s', x'), e') -> ii s = ii s' && ii x = ii x' && q_eq e e') a b
let sort_tr l = List.sort (fun ((s, a), _) ((s', a'), _) -> compare (ii s, ii a) (ii s', ii a')) l
(* implementation-produced sizes are read as bounded machine ints, never as unary nats *)
let next_small r = let n = next_int r in if n < 0 || n > 100000 then failwith "implementation size out of range" else n

let crashed r = (not (at_end r)) && (match peek r with "CRASH" | "SANITIZER" | "TIMEOUT" | "THROW" -> true | _ -> false)

let judge _id (c : cursor) (r : cursor) : bool * string =
  let kind = next c in
  if crashed r then oracle_fail "no_UB" kind ("implementation did not return: " ^ String.concat " " (rest r));
  match kind with
  | "ut" ->
    let nS = next_int c in let nA = next_int c in let tol = next_q c in
    let q = chunks nA (next_n c (nS * nA) next_q) in
    let nt = next_int c in
    let tr = next_n c nt (fun c -> let s = next_nat c in let a = next_nat c in let e = next_q c in ((s, a), e)) in
    let nops = next_int c in
    let ops = next_n c nops (fun c -> let s = next_nat c in let a = next_nat c in let e = next_q c in let td = next_q c in (((s, a), e), td)) in
    let int = next_small r in
    let itr = next_n r int (fun r -> let s = next_nat r in let a = next_nat r in let e = next_q r in ((s, a), e)) in
    let iq = chunks nA (next_n r (nS * nA) next_q) in
    (* precondition as a boolean (the generator only emits admissible inputs) *)
    let pre = q_wfb (nat_of_int nS) (nat_of_int nA) q && List.for_all (tr_inb (nat_of_int nS) (nat_of_int nA)) tr
              && List.for_all (fun (((s, a), _), _) -> ii s < nS && ii a < nA) ops in
    if not pre then failwith "ut: generator emitted an inadmissible case";
    (* O: the set of traces is what the documentation says, whatever the swap-and-pop order *)
    let exp = List.fold_left (fun t (((s, a), _), td) -> ut_expected s a td tol t) tr ops in
    if not (tr_eq (sort_tr exp) (sort_tr itr)) then
      oracle_fail "updateTraces_meaning" "OffPolicyBase::updateTraces" ("impl " ^ str_tr itr ^ " expected(set) " ^ str_tr exp);
    (* O: the model has no UB under the precondition *)
    (match updateTraces_history ops tol (q, tr) with
     | UB -> oracle_fail "updateTraces_no_UB" "OffPolicyBase::updateTraces" "model reaches UB on an admissible input"
     | Fuel -> disagree "updateTraces_fuel" "OffPolicyBase::updateTraces" "model out of fuel"
     | Ok (mq, mtr) ->
       if not (tr_eq mtr itr) then disagree "updateTraces_order" "OffPolicyBase::updateTraces" ("impl " ^ str_tr itr ^ " model " ^ str_tr mtr);
       if not (List.length mq = List.length iq && List.for_all2 qs_eq mq iq) then
         disagree "updateTraces_q" "OffPolicyBase::updateTraces" "q tables differ");
    (nt > 0 && List.length itr < nt + nops, "ut")
  | "match" | "matchoob" ->
    let lk = next_nats c in let lv = next_nats c in let rk = next_nats c in let rv = next_nats c in
    let m1 = next_int r = 1 in let m2 = next_int r = 1 in
    let lhs = (lk, lv) and rhs = (rk, rv) in
    if not (pf_wfb lhs && pf_wfb rhs && strict_incb lk && strict_incb rk) then failwith "match: inadmissible case";
    let spec = match_spec lhs rhs in
    if m1 <> spec || m2 <> spec then
      oracle_fail "match_meaning" "match" (Printf.sprintf "impl %b/%b, common factors %s" m1 m2 (if spec then "agree" else "differ"));
    (match match_pf false lhs rhs with
     | UB -> if kind = "match" then oracle_fail "match_no_UB" "match" "model of the loop as it stands reads biggerK[i] past the end"
     | Fuel -> disagree "match_fuel" "match" "out of fuel"
     | Ok b -> if kind = "matchoob" then failwith "matchoob case without out-of-bounds read";
       if b <> m1 then disagree "match_cur" "match" "model (as is) and implementation differ");
    (match match_pf true lhs rhs with
     | Ok b -> if b <> spec then disagree "match_fix_vs_spec" "match" "repaired model differs from the spec"
     | _ -> oracle_fail "match_no_UB" "match" "repaired model reaches UB");
    (List.length lk > 1 && List.length rk > 1, kind)
  | "ed" ->
    let n = next_int c in let d = next_int c in
    let l = chunks d (next_n c (n * d) next_q) in
    let l = if d = 0 then List.init n (fun _ -> []) else l in
    let ik = next_small r in
    let il = chunks d (next_n r (n * d) next_q) in
    let il = if d = 0 then List.init n (fun _ -> []) else il in
    (* O: permutation of the input *)
    let key v = String.concat "," (List.map string_of_q v) in
    if List.sort compare (List.map key l) <> List.sort compare (List.map key il) then
      oracle_fail "extractDominated_perm" "extractDominated" "output is not a permutation of the input";
    if ik > n then oracle_fail "extractDominated_range" "extractDominated" "returned iterator past the end";
    (match extractDominated_idx dominates l with
     | UB -> oracle_fail "extractDominated_no_UB" "extractDominated" "model reaches UB"
     | Fuel -> disagree "extractDominated_fuel" "extractDominated" "out of fuel"
     | Ok (ml, mk) ->
       if ii mk <> ik then disagree "extractDominated_bound" "extractDominated" (Printf.sprintf "impl %d model %d" ik (ii mk));
       if not (List.length ml = List.length il && List.for_all2 qs_eq ml il) then disagree "extractDominated_order" "extractDominated" "arrays differ";
       (* cross-check with C12's zone-list model (about which C12's theorems are proved) *)
       let (kept, removed) = extractDominated l in
       if List.length kept <> ii mk || not (List.for_all2 qs_eq (kept @ removed) ml) then
         disagree "extractDominated_zone_vs_index" "extractDominated" "C12 zone-list model and C10 index model differ");
    (ik < n && n > 2, "ed")
  | "edi" ->
    let n = next_int c in let nold = next_int c in let d = next_int c in
    let l = chunks d (next_n c (n * d) next_q) in
    let ioe = next_small r in let imid = next_small r in let iend = next_small r in
    let il = chunks d (next_n r (n * d) next_q) in
    let site = "extractDominatedIncremental" in
    let key v = String.concat "," (List.map string_of_q v) in
    if List.sort compare (List.map key l) <> List.sort compare (List.map key il) then
      oracle_fail "extractDominatedIncremental_perm" site "output is not a permutation of the input";
    if not (ioe <= imid && imid <= iend && iend <= n) then
      oracle_fail "extractDominatedIncremental_range" site (Printf.sprintf "returned iterators %d %d %d not ordered inside [0,%d]" ioe imid iend n);
    (* O: the documented layout  <old good> oldEnd <new good> mid <old bad> end <new bad + discarded>:
       old entries only in the two old zones, new entries only in the two new zones *)
    let seg a b = take (b - a) (drop a il) in
    let ms x = List.sort compare (List.map key x) in
    if ms (seg 0 ioe @ seg imid iend) <> ms (take nold l) || ms (seg ioe imid @ seg iend n) <> ms (drop nold l) then
      oracle_fail "extractDominatedIncremental_zones" site
        (Printf.sprintf "old/new entries are not in their zones (oldEnd %d mid %d end %d, %d old of %d)" ioe imid iend nold n);
    (match extractDominatedIncremental_idx dominates l O (nat_of_int nold) (nat_of_int n) with
     | UB -> oracle_fail "extractDominatedIncremental_no_UB" site "model reaches UB"
     | Fuel -> disagree "extractDominatedIncremental_fuel" site "out of fuel"
     | Ok (((ml, moe), mmid), mend) ->
       if (ii moe, ii mmid, ii mend) <> (ioe, imid, iend) then
         disagree "extractDominatedIncremental_bounds" site (Printf.sprintf "impl %d %d %d model %d %d %d" ioe imid iend (ii moe) (ii mmid) (ii mend));
       if not (List.length ml = List.length il && List.for_all2 qs_eq ml il) then disagree "extractDominatedIncremental_order" site "arrays differ";
       (* cross-check with C12's zone-list model (five zones) *)
       let ((((og, ng), ob), nb), nr) = extractDominatedIncremental (take nold l) (drop nold l) in
       if List.length og <> ioe || List.length og + List.length ng <> imid || List.length og + List.length ng + List.length ob <> iend
          || not (List.for_all2 qs_eq (og @ ng @ ob @ nb @ nr) ml) then
         disagree "extractDominatedIncremental_zone_vs_index" site "C12 zone-list model and C10 index model differ");
    (iend < n && nold > 0 && nold < n, "edi")
  | "wit" ->
    let nS = next_int c in
    let v = next_nats c in
    let nops = next_int c in
    let ops = next_n c nops (fun c ->
        let op = next c in let id = next_nat c in
        match op with
        | "aw" -> OAddWit id | "rw" -> ORmWit id | "am" -> OAddMax id
        | "rm" -> let sk = next_int c <> 0 in ORmMax (id, sk)
        | _ -> failwith "wit: unknown op") in
    let iv = List.map (fun _ -> next_small r) (List.init (next_small r) (fun i -> i)) in
    (* precondition: v[0] = k, 1 <= k <= size *)
    let vi = List.map ii v in
    (match vi with k :: _ when k >= 1 && k <= List.length vi -> () | _ -> failwith "wit: inadmissible list");
    (* O: set semantics of the four operations (maxes / witnesses as sets), independent of positions *)
    let k0 = List.hd vi in
    let maxes0 = take (k0 - 1) (List.tl vi) and wits0 = drop (k0 - 1) (List.tl vi) in
    let rm x l = List.filter (fun y -> y <> x) l in
    let add x l = if List.mem x l then l else x :: l in
    let (mx, wt) = List.fold_left (fun (mx, wt) o ->
        match o with
        | OAddWit id -> let id = ii id in if id < nS || List.mem id mx then (mx, wt) else (mx, add id wt)
        | ORmWit id -> let id = ii id in if id < nS then (mx, wt) else (mx, rm id wt)
        | OAddMax id -> let id = ii id in let wt = if id < nS then wt else rm id wt in (add id mx, wt)
        | ORmMax (id, sk) -> let id = ii id in
          if not (List.mem id mx) then (mx, wt)
          else let mx = rm id mx in if sk || id < nS then (mx, wt) else (mx, add id wt)) (maxes0, wits0) ops in
    let expect = (List.length mx + 1) :: (List.sort compare mx @ List.sort compare wt) in
    if iv <> expect then
      oracle_fail "witness_lists_meaning" "SARSOP::addWit/rmWit/addMax/rmMax"
        ("impl " ^ str_ints iv ^ " expected " ^ str_ints expect);
    (match wrun (nat_of_int nS) ops v with
     | UB -> oracle_fail "witness_lists_no_UB" "SARSOP::addWit/rmWit/addMax/rmMax" "model reaches UB on a list satisfying the invariant"
     | Fuel -> disagree "witness_lists_fuel" "SARSOP::addWit/rmWit/addMax/rmMax" "out of fuel"
     | Ok mv -> if List.map ii mv <> iv then disagree "witness_lists" "SARSOP::addWit/rmWit/addMax/rmMax" ("impl " ^ str_ints iv ^ " model " ^ str_nats mv));
    (nops > 2, "wit")
  | "fibmax" | "fibmaxz" ->
    let nS = next_int c in let nA = next_int c in
    let rw = next_n c (nS * nA) next_q in
    let site = "FastInformedBound::operator()<sparse>" in
    let innz = next_small r in
    let iqs = next_x r in let iqd = next_x r in
    let spec = List.fold_left q_max (List.hd rw) (List.tl rw) in
    let buf = List.filter (fun x -> not (q_eq x q_zero)) rw in
    let two = q_of_int 2 in
    if innz <> List.length buf then disagree "fib_nnz" site (Printf.sprintf "stored rewards: impl %d model %d" innz (List.length buf));
    (match iqd with Fin x when q_eq x (q_mul two spec) -> () | _ -> oracle_fail "fib_dense_max_meaning" "FastInformedBound::operator()<dense>" "Q0 != max R / (1 - 1/2)");
    (match iqs with
     | Fin x when q_eq x (q_mul two spec) -> ()
     | Fin x -> oracle_fail "fib_sparse_max_meaning" site ("Q0/2 = " ^ string_of_q (vio_qdiv x two) ^ " but max R = " ^ string_of_q spec)
     | _ -> oracle_fail "fib_sparse_max_meaning" site "Q0 is not finite");
    (match fib_sparse_max (nat_of_int nS) (nat_of_int nA) buf with
     | UB -> if kind = "fibmax" then oracle_fail "fib_sparse_max_no_UB" site "model of Map(valuePtr, size) reads past the value buffer"
     | Fuel -> failwith "fibmax: fuel"
     | Ok m -> if kind = "fibmaxz" then failwith "fibmaxz case without implicit zero";
       if not (q_eq m spec) then disagree "fib_sparse_max_cur" site "model (as is) differs from the dense maximum on a full matrix");
    (match fib_sparse_max_fix (nat_of_int nS) (nat_of_int nA) buf with
     | Ok m -> if not (q_eq m spec) then disagree "fib_sparse_max_fix_vs_spec" site "repaired model differs from max R"
     | _ -> oracle_fail "fib_sparse_max_no_UB" site "repaired model reaches UB");
    (List.length buf > 1, kind)
  | "bg" ->
    let n = next_int c in
    let isz = next_small r in let igood = next_small r in
    if isz <> n then oracle_fail "beliefGenerator_count" "BeliefGenerator::operator()" (Printf.sprintf "asked %d got %d" n isz);
    if igood <> isz then oracle_fail "beliefGenerator_distributions" "BeliefGenerator::operator()" (Printf.sprintf "%d of %d beliefs are distributions" igood isz);
    (n > 3, "bg")
  | "ebu" | "ebuempty" ->
    let d = next_int c in
    let np = next_int c in let pts = chunks d (next_n c (np * d) next_q) in
    let nv = next_int c in let pl = chunks d (next_n c (nv * d) next_q) in
    let ik = next_small r in
    let ipts = chunks d (next_n r (np * d) next_q) in
    let site = "extractBestUsefulPoints" in
    let key v = String.concat "," (List.map string_of_q v) in
    if List.sort compare (List.map key pts) <> List.sort compare (List.map key ipts) then
      oracle_fail "extractBestUsefulPoints_perm" site "output is not a permutation of the input";
    if ik > np then oracle_fail "extractBestUsefulPoints_range" site "returned iterator past the end";
    (* findBestAtPoint through C12's model of it (index of the best plane, value there) *)
    let fb p = match findBestAtPointV p pl with Some ((i, _), v) -> (i, v) | None -> (O, q_zero) in
    (* O: every returned point is the best (or tied-best) input point for the plane it supports, and
       every plane supported by some input point is supported by a returned point *)
    if nv > 0 then begin
      let sup p = ii (fst (fb p)) in
      let kept = take ik ipts in
      let planes_in = List.sort_uniq compare (List.map sup pts) and planes_kept = List.sort_uniq compare (List.map sup kept) in
      if planes_in <> planes_kept then oracle_fail "extractBestUsefulPoints_cover" site "a supported hyperplane lost all its points";
      if List.length planes_kept <> List.length kept then oracle_fail "extractBestUsefulPoints_one_per_plane" site "two returned points support the same hyperplane";
      List.iter (fun k -> let v = snd (fb k) in
                  List.iter (fun p -> if sup p = sup k && q_lt v (snd (fb p)) then
                                oracle_fail "extractBestUsefulPoints_best" site "a better point for the same hyperplane was discarded") pts) kept
    end;
    (match extractBestUsefulPoints_idx fb (fun a b -> q_lt a b) (fun _ -> true) (nat_of_int nv) pts with
     | UB -> if kind = "ebu" then oracle_fail "extractBestUsefulPoints_no_UB" site "model reaches UB"
     | Fuel -> disagree "extractBestUsefulPoints_fuel" site "out of fuel"
     | Ok _ -> if kind = "ebuempty" then failwith "ebuempty case on which the model of the code as it stands has no UB");
    (* C against the repaired routine (identical to the code as it stands when there is a hyperplane) *)
    (match extractBestUsefulPoints_fix fb (fun a b -> q_lt a b) (fun _ -> true) (nat_of_int nv) pts with
     | Ok (mp, mk) ->
       if ii mk <> ik then disagree "extractBestUsefulPoints_bound" site (Printf.sprintf "impl %d model %d" ik (ii mk));
       if not (List.length mp = List.length ipts && List.for_all2 qs_eq mp ipts) then disagree "extractBestUsefulPoints_order" site "arrays differ"
     | _ -> oracle_fail "extractBestUsefulPoints_no_UB" site "repaired model reaches UB");
    (np > 1 && ik < np, kind)
  | "mlm" ->
    let mk = next c in let ek = next c in
    let nS = next_int c in let nA = next_int c in
    let nops = next_int c in
    let visits = Array.make (nS * nA * nS) 0 in
    let reset_seen = ref false and last_full = ref false in
    for _ = 1 to nops do
      (match next c with
       | "r" -> let s0 = next_int c in let a = next_int c in let s1 = next_int c in let _ = next_q c in
         let k = (s0 * nA + a) * nS + s1 in visits.(k) <- visits.(k) + 1; last_full := false
       | "y" -> last_full := true
       | "p" -> ignore (next_int c); ignore (next_int c); last_full := false
       | "q" -> ignore (next_int c); ignore (next_int c); ignore (next_int c); last_full := false
       | "z" -> Array.fill visits 0 (Array.length visits) 0; reset_seen := true; last_full := false
       | op -> failwith ("mlm: unknown op " ^ op))
    done;
    let site = (if mk = "S" then "MDP::SparseMaximumLikelihoodModel<" else "MDP::MaximumLikelihoodModel<")
               ^ (if ek = "d" then "MDP::Experience>" else "MDP::SparseExperience>") ^ "::sync" in
    let idups = next_small r in let ibad = next_small r in let ifirst = next_small r in
    if idups <> 0 then oracle_fail "sparse_rows_wellformed" site (Printf.sprintf "%d duplicate / unsorted inner indices, first after operation %d" idups ifirst);
    if ibad <> 0 then oracle_fail "rows_are_distributions" site (Printf.sprintf "%d (row, operation) pairs where a transition row is not a distribution, first after operation %d" ibad ifirst);
    let eps = q_of_ints 1 1000000000 in
    for a = 0 to nA - 1 do
      for s0 = 0 to nS - 1 do
        let n = next_small r in
        let ent = List.init n (fun _ -> let col = next_small r in let v = next_q r in (col, v)) in
        let rec inc = function (c1, _) :: (((c2, _) :: _) as t) -> c1 < c2 && inc t | _ -> true in
        if not (inc ent) then oracle_fail "sparse_rows_wellformed" site (Printf.sprintf "row (%d,%d) stores its columns as %s" s0 a (str_ints (List.map fst ent)));
        let sum = List.fold_left (fun acc (_, v) -> q_add acc v) q_zero ent in
        if not (q_le (q_abs (q_sub sum q_one)) eps) then oracle_fail "rows_are_distributions" site (Printf.sprintf "row (%d,%d) sums to %s" s0 a (string_of_q sum));
        if !last_full then begin
          let tot = ref 0 in for s1 = 0 to nS - 1 do tot := !tot + visits.((s0 * nA + a) * nS + s1) done;
          if !tot > 0 || not !reset_seen then
            for s1 = 0 to nS - 1 do
              let expect = if !tot > 0 then q_of_ints visits.((s0 * nA + a) * nS + s1) !tot else (if s1 = s0 then q_one else q_zero) in
              let got = List.fold_left (fun acc (c1, v) -> if c1 = s1 then q_add acc v else acc) q_zero ent in
              if not (q_le (q_abs (q_sub got expect)) eps) then
                oracle_fail "synced_row_is_empirical" site (Printf.sprintf "T(%d,%d,%d) = %s after sync(), visits say %s" s0 a s1 (string_of_q got) (string_of_q expect))
            done
        end
      done
    done;
    (nops > 4, "mlm_" ^ mk ^ ek)
  | "reuse" ->
    let which = next c in let tol = next_q c in let n = next_int c in
    let site = (if which = "sarsop" then "POMDP::SARSOP" else "POMDP::GapMin") ^ "::operator()#second_call" in
    if (not (at_end r)) && peek r = "NOCONV" then (false, "reuse_noconv")
    else begin
      let slack = q_add tol (q_of_ints 1 1000000) in
      for i = 1 to n do
        let lb = next_x r in let ub = next_x r in let flb = next_x r in let fub = next_x r in
        (match lb, ub, flb, fub with
         | Fin lb, Fin ub, Fin flb, Fin fub ->
           (* both brackets contain V*(b0), so they must intersect (up to the tolerance the solver was given) *)
           if q_lt (q_add fub slack) lb || q_lt (q_add ub slack) flb then
             oracle_fail "reuse_consistent" site (Printf.sprintf "solve %d on the reused object gives [%s, %s], a fresh object [%s, %s]" i (string_of_q lb) (string_of_q ub) (string_of_q flb) (string_of_q fub))
         | _ -> oracle_fail "reuse_consistent" site (Printf.sprintf "solve %d returned a non-finite bound" i))
      done;
      (n > 1, "reuse_" ^ which)
    end
  | "fg" -> Fg.judge_fg c r
  | _ -> failwith ("unknown case kind " ^ kind)

let () = main_loop judge
