(* ml/C10/fg.ml — judge for the FactorGraph adjacency bookkeeping (coq/theories/C10/ModelFG.v):
   case   fg <nvars> <nops> ( g <k> v1..vk | e <a> )* [ F f0..f(n-1) ]       (default F: all 2)
   impl   variableSize factorSize  { |getVariables(a)| ..  |getFactors(a)| (|vars| vars)* }a<n
          |factors| (|vars| vars)*  ok  bestVariableToRemove(F)
   O: an independent reading of the documentation (sets of variable sets, a symmetric neighbour relation),
      and "the checked-access model has no UB on an admissible history";
   C: everything printed, order included, equals what the model computes. *)
open Model
open Vio

let fg_ii = int_of_nat
(* implementation-produced sizes are read as bounded machine ints, never as unary nats *)
let fg_small r = let n = next_int r in if n < 0 || n > 100000 then failwith "implementation size out of range" else n
let fg_ilist r = let k = fg_small r in List.init k (fun _ -> fg_small r)
let fg_str l = "[" ^ String.concat "," (List.map string_of_int l) ^ "]"
let fg_strs ll = "{" ^ String.concat " " (List.map fg_str ll) ^ "}"

type fg_iop = G of int list | E of int

(* the documentation read independently of the code:
   - there is one factor per distinct variable set requested since the last effective erase of one of its
     variables (erase of an already erased variable "does not do anything"), kept in order of creation;
   - getFactors(a) = the factors whose variable set contains a, in the same order;
   - getVariables(a) = the other variables that have shared a requested set with a, none of the two having
     been (effectively) erased since, in increasing order;
   - variableSize = n - number of distinct erased variables. *)
let fg_oracle (n : int) (ops : fg_iop list) =
  let erased = Array.make n false in
  let factors = ref [] in                                  (* creation order *)
  let nb = Array.make_matrix n n false in
  List.iter (function
      | G vs ->
        if not (List.mem vs !factors) then factors := !factors @ [vs];
        List.iter (fun a -> List.iter (fun b -> if a <> b then nb.(a).(b) <- true) vs) vs
      | E a ->
        if not erased.(a) then begin
          erased.(a) <- true;
          factors := List.filter (fun vs -> not (List.mem a vs)) !factors;
          for b = 0 to n - 1 do nb.(a).(b) <- false; nb.(b).(a) <- false done
        end) ops;
  let nerased = Array.fold_left (fun k b -> if b then k + 1 else k) 0 erased in
  let neigh a = List.filter (fun b -> nb.(a).(b)) (List.init n (fun b -> b)) in
  let facs a = List.filter (fun vs -> List.mem a vs) !factors in
  (n - nerased, !factors, neigh, facs, erased)

let judge_fg (c : cursor) (r : cursor) : bool * string =
  let n = next_int c in
  let nops = next_int c in
  let iops = List.init nops (fun _ ->
      match next c with
      | "g" -> let k = next_int c in G (List.init k (fun _ -> next_int c))
      | "e" -> E (next_int c)
      | t -> failwith ("fg: unknown op " ^ t)) in
  let fsz = if at_end c then List.init n (fun _ -> 2) else (expect c "F"; List.init n (fun _ -> next_int c)) in
  if List.exists (fun f -> f < 1 || f > 16) fsz then failwith "fg: F out of the generator's range";
  let ops = List.map (function G vs -> FGGetFactor (List.map nat_of_int vs) | E a -> FGErase (nat_of_int a)) iops in
  if not (List.for_all (fgop_okb (nat_of_int n)) ops) then failwith "fg: generator emitted an inadmissible history";
  (* ---- implementation output ---- *)
  let i_vsize = fg_small r in
  let i_fsize = fg_small r in
  let i_per = List.init n (fun _ ->
      let vn = fg_ilist r in
      let k = fg_small r in
      let fs = List.init k (fun _ -> fg_ilist r) in
      (vn, fs)) in
  let i_cnt = fg_small r in
  let i_list = List.init i_cnt (fun _ -> fg_ilist r) in
  let i_ok = next_int r in
  let i_best = fg_small r in
  if not (at_end r) then failwith "fg: trailing implementation output";
  (* ---- O: independent meaning ---- *)
  let (o_vsize, o_factors, o_neigh, o_facs, o_erased) = fg_oracle n iops in
  if i_vsize <> o_vsize then
    oracle_fail "factorGraph_variableSize" "FactorGraph::variableSize" (Printf.sprintf "impl %d expected %d" i_vsize o_vsize);
  if i_fsize <> List.length o_factors || i_cnt <> i_fsize then
    oracle_fail "factorGraph_factorSize" "FactorGraph::factorSize"
      (Printf.sprintf "impl factorSize %d, begin..end has %d, expected %d" i_fsize i_cnt (List.length o_factors));
  if List.sort compare i_list <> List.sort compare o_factors then
    oracle_fail "factorGraph_factor_set" "FactorGraph::getFactor" ("impl " ^ fg_strs i_list ^ " expected(set) " ^ fg_strs o_factors);
  if i_list <> o_factors then
    oracle_fail "factorGraph_factor_order" "FactorGraph::getFactor" ("impl " ^ fg_strs i_list ^ " expected " ^ fg_strs o_factors);
  List.iteri (fun a (vn, fs) ->
      if vn <> o_neigh a then
        oracle_fail "factorGraph_neighbours" "FactorGraph::getVariables"
          (Printf.sprintf "variable %d: impl %s expected %s" a (fg_str vn) (fg_str (o_neigh a)));
      if List.sort compare fs <> List.sort compare (o_facs a) then
        oracle_fail "factorGraph_adjacent_factors" "FactorGraph::getFactors"
          (Printf.sprintf "variable %d: impl %s expected(set) %s" a (fg_strs fs) (fg_strs (o_facs a)))) i_per;
  if i_ok <> 1 then
    oracle_fail "factorGraph_node_data" "FactorGraph::getFactor"
      "a returned iterator does not designate the requested variables, or a node's data was not kept / not reset";
  if o_vsize > 0 && (i_best >= n || o_erased.(i_best)) then
    oracle_fail "factorGraph_best_is_active" "FactorGraph::bestVariableToRemove"
      (Printf.sprintf "returned %d, which is not a variable still in the graph" i_best);
  (* ---- O: the model has no UB under the precondition;  C: model = implementation ---- *)
  (match fg_run (nat_of_int n) ops with
   | UB -> oracle_fail "factorGraph_no_UB" "FactorGraph" "checked-access model reaches UB on an admissible history"
   | Fuel -> oracle_fail "factorGraph_no_UB" "FactorGraph" "checked-access model runs out of fuel on an admissible history"
   | Ok st ->
     let m_vsize = fg_ii (fg_variableSize st) and m_fsize = fg_ii (fg_factorSize st) in
     if m_vsize <> i_vsize then disagree "fg_variableSize" "FactorGraph::variableSize" (Printf.sprintf "impl %d model %d" i_vsize m_vsize);
     if m_fsize <> i_fsize then disagree "fg_factorSize" "FactorGraph::factorSize" (Printf.sprintf "impl %d model %d" i_fsize m_fsize);
     List.iteri (fun a (vn, fs) ->
         (match fg_getVariables st (nat_of_int a) with
          | Ok l -> let l = List.map fg_ii l in
            if l <> vn then disagree "fg_getVariables" "FactorGraph::getVariables"
                (Printf.sprintf "variable %d: impl %s model %s" a (fg_str vn) (fg_str l))
          | _ -> oracle_fail "factorGraph_no_UB" "FactorGraph::getVariables" (Printf.sprintf "model: UB reading variable %d" a));
         (match fg_getFactors st (nat_of_int a) with
          | Ok ll -> let ll = List.map (List.map fg_ii) ll in
            if ll <> fs then disagree "fg_getFactors" "FactorGraph::getFactors"
                (Printf.sprintf "variable %d: impl %s model %s" a (fg_strs fs) (fg_strs ll))
          | _ -> oracle_fail "factorGraph_no_UB" "FactorGraph::getFactors"
                   (Printf.sprintf "model: variable %d holds a dangling factor iterator" a))) i_per;
     let m_list = List.map (List.map fg_ii) (fg_factor_list st) in
     if m_list <> i_list then disagree "fg_factor_list" "FactorGraph::begin" ("impl " ^ fg_strs i_list ^ " model " ^ fg_strs m_list);
     (match fg_bestVariableToRemove st (List.map nat_of_int fsz) with
      | Ok b -> if fg_ii b <> i_best then disagree "fg_bestVariableToRemove" "FactorGraph::bestVariableToRemove"
            (Printf.sprintf "impl %d model %d" i_best (fg_ii b))
      | _ -> oracle_fail "factorGraph_no_UB" "FactorGraph::bestVariableToRemove" "checked-access model reaches UB"));
  let n_get = List.length (List.filter (function G _ -> true | _ -> false) iops) in
  (* non-trivial: a factor was requested twice, or an (effective) erase removed a factor *)
  (n_get > List.length o_factors, "fg")
