(* ml/C17/driver.ml — judge for property C17.
   O (oracle, on the implementation's own dumps, compared bitwise as strings):
     - failed_load_leaves_dest : a load that did not succeed left the destination dump unchanged;
     - truncation_fails        : a truncated file never loads as a different object;
     - roundtrip_<kind>        : write-then-read gives status ok and a dump identical to the original.
   C (correspondence, extracted model vs implementation on the same token stream):
     - the model writer produces exactly the implementation's tokens;
     - for the full text, every truncation and every corruption: same accept/reject/throw decision
       and same resulting destination tables.
   The token type of the model is instantiated with OCaml strings; show/read/showN/readN are the
   hand-written (trusted, exercised here) emulations of libstdc++'s num_put/num_get. *)
open Model
open Vio

(* ---------- numerals ---------- *)
let n_of_string (s : string) : n = vio_z_to_N (z_of_string s)
let string_of_n (x : n) : string = string_of_z (vio_z_of_N x)
let two64 = z_of_string "18446744073709551616"
let z_lt a b = (match vio_z_compare a b with Lt -> true | _ -> false)

(* exact conversion of a dyadic rational that is a double *)
let float_of_dyadic (x : q) : float =
  let x = vio_qred x in
  let rec log2 p = match p with XH -> 0 | XO p' -> 1 + log2 p' | XI _ -> failwith "float_of_dyadic: not dyadic" in
  let k = log2 (vio_qden x) in
  Float.ldexp (float_of_z (vio_qnum x)) (- k)

(* os << double with precision max_digits10 (default floatfield => %g) *)
let show (x : q) : string = Printf.sprintf "%.17g" (float_of_dyadic x)
(* default stream precision (6), what operator<<(ostream&, POMDP::Policy) uses as it stands *)
let show6 (x : q) : string = Printf.sprintf "%g" (float_of_dyadic x)
let showN (x : n) : string = string_of_n x

let is_digit c = c >= '0' && c <= '9'

(* libstdc++ num_get::_M_extract_float followed by __convert_to_v (strtod, whole string) *)
let read_double (t : string) : (q * string option) option =
  let n = String.length t in
  let b = Buffer.create 32 in
  let i = ref 0 in
  if !i < n && (t.[!i] = '+' || t.[!i] = '-') then (Buffer.add_char b t.[!i]; incr i);
  let found_mant = ref false and found_dec = ref false and found_sci = ref false in
  (* leading zeros *)
  let stop = ref false in
  while not !stop && !i < n do
    if t.[!i] = '0' then (if not !found_mant then (Buffer.add_char b '0'; found_mant := true); incr i)
    else stop := true
  done;
  stop := false;
  while not !stop && !i < n do
    let c = t.[!i] in
    if is_digit c then (Buffer.add_char b c; found_mant := true; incr i)
    else if c = '.' && not !found_dec && not !found_sci then (Buffer.add_char b '.'; found_dec := true; incr i)
    else if (c = 'e' || c = 'E') && not !found_sci && !found_mant then begin
      Buffer.add_char b 'e'; found_sci := true; incr i;
      if !i < n then (if t.[!i] = '+' || t.[!i] = '-' then (Buffer.add_char b t.[!i]; incr i))
      else stop := true
    end else stop := true
  done;
  let x = Buffer.contents b in
  let rest = if !i < n then Some (String.sub t !i (n - !i)) else None in
  (* strtod must consume all of x *)
  let valid =
    let m = String.length x in
    let j = ref 0 in
    if !j < m && (x.[!j] = '+' || x.[!j] = '-') then incr j;
    let d1 = ref 0 in
    while !j < m && is_digit x.[!j] do incr j; incr d1 done;
    let d2 = ref 0 in
    if !j < m && x.[!j] = '.' then (incr j; while !j < m && is_digit x.[!j] do incr j; incr d2 done);
    if !d1 + !d2 = 0 then false
    else if !j = m then true
    else if x.[!j] = 'e' then begin
      incr j;
      if !j < m && (x.[!j] = '+' || x.[!j] = '-') then incr j;
      let d3 = ref 0 in
      while !j < m && is_digit x.[!j] do incr j; incr d3 done;
      !d3 > 0 && !j = m
    end else false in
  if not valid then None
  else
    let f = float_of_string x in
    if Float.abs f = Float.infinity then None       (* overflow: failbit *)
    else Some (q_of_float f, rest)

(* libstdc++ num_get::_M_extract_int<unsigned long>, base 10 *)
let read_ulong (t : string) : (n * string option) option =
  let n = String.length t in
  let i = ref 0 in
  let neg = !i < n && t.[!i] = '-' in
  if !i < n && (t.[!i] = '+' || t.[!i] = '-') then incr i;
  let start = !i in
  while !i < n && is_digit t.[!i] do incr i done;
  if !i = start then None
  else begin
    let v = z_of_string (String.sub t start (!i - start)) in
    let rest = if !i < n then Some (String.sub t !i (n - !i)) else None in
    if not (z_lt v two64) then None                 (* overflow: failbit *)
    else
      let v' = if neg && (match v with Z0 -> false | _ -> true) then vio_z_add two64 (vio_z_opp v) else v in
      Some (vio_z_to_N v', rest)
  end

let at_tok = "@"
let split_at (t : string) : string option option =
  if String.length t > 0 && t.[0] = '@' then
    Some (if String.length t = 1 then None else Some (String.sub t 1 (String.length t - 1)))
  else None

(* ---------- canonical dumps ---------- *)
type canon = I of string | Qv of q | Bad of string

let canon_of_impl (s : string) : canon =
  let has_x = (let n = String.length s in let rec go i = i + 1 < n && ((s.[i] = '0' && s.[i + 1] = 'x') || go (i + 1)) in go 0) in
  if has_x then Qv (q_of_token s)
  else if s = "nan" || s = "inf" || s = "-inf" then Bad s
  else I s
let ci (k : int) = I (string_of_int k)
let cnat (k : nat) = ci (int_of_nat k)
let cn (x : n) = I (string_of_n x)
let cq (x : q) = Qv x
let c_mat (m : q list list) = List.concat_map (List.map cq) m
let c_mat3 (m : q list list list) = List.concat_map c_mat m
let c_tab (m : n list list) = List.concat_map (List.map cn) m
let c_tab3 m = List.concat_map c_tab m
let c_smat (m : ((nat * nat) * q) list) =
  ci (List.length m) :: List.concat_map (fun ((r, c), v) -> [cnat r; cnat c; cq v]) m
let c_stab (m : ((nat * nat) * n) list) =
  ci (List.length m) :: List.concat_map (fun ((r, c), v) -> [cnat r; cnat c; cn v]) m

let dbl_max = q_of_float max_float
let canon_str = function I s -> s | Qv x -> string_of_q x | Bad s -> s
let canon_eq ~approx a b = match a, b with
  | I x, I y -> x = y
  | Qv x, Qv y -> q_eq x y || (approx && q_close x y)
  (* the sum of two duplicate sparse entries may overflow a double; the model's sum is exact *)
  | Bad "inf", Qv y | Qv y, Bad "inf" -> approx && q_lt dbl_max y
  | Bad "-inf", Qv y | Qv y, Bad "-inf" -> approx && q_lt y (q_sub q_zero dbl_max)
  | _ -> false
let rec dumps_agree ~approx a b = match a, b with
  | [], [] -> true
  | x :: a', y :: b' -> canon_eq ~approx x y && dumps_agree ~approx a' b'
  | _ -> false
let show_dump l = String.concat " " (List.map canon_str l)

let d_model (m : mdp_model) = [cnat m.mS; cnat m.mA; cq m.mDisc] @ c_mat3 m.mT @ c_mat m.mR
let d_smodel (m : smdp_model) = [cnat m.smS; cnat m.smA; cq m.smDisc] @ List.concat_map c_smat m.smT @ c_smat m.smR
let d_exp (e : experience) =
  [cnat e.eS; cnat e.eA; cn e.eTime] @ c_tab3 e.eVisits @ c_tab (visits_sum e.eS e.eA e.eVisits) @ c_mat e.eRew @ c_mat e.eM2
let d_sexp (e : sexperience) =
  [cnat e.seS; cnat e.seA; cn e.seTime] @ List.concat_map c_stab e.seVisits @ c_tab (svisits_sum e.seS e.seA e.seVisits)
  @ c_smat e.seRew @ c_smat e.seM2
let d_pol (p : mdp_policy) = [cnat p.pS; cnat p.pA] @ c_mat p.pTable
let d_pmodel (m : pomdp_model) = d_model m.pmM @ [cnat m.pmO] @ c_mat3 m.pmObs
let d_spmodel (m : spomdp_model) = d_smodel m.spmM @ [cnat m.spmO] @ List.concat_map c_smat m.spmObs
let d_ppol (p : pomdp_policy) =
  [cnat p.ppS; cnat p.ppA; cnat p.ppO; cnat p.ppH; ci (List.length p.ppVF)] @
  List.concat_map (fun vl -> ci (List.length vl) ::
    List.concat_map (fun e -> [ci (List.length e.vValues)] @ List.map cq e.vValues @ [cn e.vAction; ci (List.length e.vObs)] @ List.map cn e.vObs) vl) p.ppVF

(* ---------- parsing the implementation's dumps back into model objects (for the validity oracle) ---------- *)
let cur_of (l : string list) : cursor = { toks = Array.of_list l; pos = 0 }
let pd_mat c r k = List.init r (fun _ -> List.init k (fun _ -> next_q c))
let model_of_dump (l : string list) : mdp_model =
  let c = cur_of l in let s = next_int c in let a = next_int c in let d = next_q c in
  let t = List.init a (fun _ -> pd_mat c s s) in let r = pd_mat c s a in
  { mS = nat_of_int s; mA = nat_of_int a; mDisc = d; mT = t; mR = r }
let policy_of_dump (l : string list) : mdp_policy =
  let c = cur_of l in let s = next_int c in let a = next_int c in
  { pS = nat_of_int s; pA = nat_of_int a; pTable = pd_mat c s a }
let ppol_of_dump (l : string list) : pomdp_policy =
  let c = cur_of l in let s = next_int c in let a = next_int c in let o = next_int c in let h = next_int c in
  let nvf = next_int c in
  let vf = List.init nvf (fun _ -> let n = next_int c in List.init n (fun _ ->
      let nv = next_int c in let v = List.init nv (fun _ -> next_q c) in
      let act = n_of_string (next c) in let no = next_int c in let ob = List.init no (fun _ -> n_of_string (next c)) in
      { vValues = v; vAction = act; vObs = ob })) in
  { ppS = nat_of_int s; ppA = nat_of_int a; ppO = nat_of_int o; ppH = nat_of_int h; ppVF = vf }

(* ---------- building the model objects from the case ---------- *)
let rd_list k f = List.init k (fun _ -> f ())
let rd_mat c r k = rd_list r (fun () -> rd_list k (fun () -> next_q c))
let rd_mat3 c n r k = rd_list n (fun () -> rd_mat c r k)
let rd_tab c r k = rd_list r (fun () -> rd_list k (fun () -> n_of_string (next c)))
let q_is_zero x = q_eq x q_zero
let sparsify (is_zero : 'a -> bool) (m : 'a list list) : ((nat * nat) * 'a) list =
  List.concat (List.mapi (fun i row -> List.concat (List.mapi (fun j v -> if is_zero v then [] else [((nat_of_int i, nat_of_int j), v)]) row)) m)
let n_is_zero (x : n) = (match x with N0 -> true | _ -> false)

let status_str = function St_ok -> "ok" | St_fail -> "fail" | St_throw -> "throw" | St_fuel -> "fuel"
let status_of_str = function "ok" -> St_ok | "fail" -> St_fail | "throw" -> St_throw | s -> failwith ("bad status " ^ s)

type ops = {
  xdump : canon list;                                  (* dump of the model's X *)
  ddump : canon list;
  write_m : unit -> string list;
  read_m : string list -> status * canon list;         (* model load into a copy of D *)
  clause : string; site_r : string; site_w : string; approx : bool;
  (* variants of the code as it stands, used only to recognise the two known defects *)
  asis_write : (unit -> string list) option;
  asis_read : (string list -> status * canon list) option;
  (* validity (Spec.valid_*_b) of an object the implementation loaded, from its dump *)
  valid : (string list -> bool) option;
}

let mk (type a) (x : a) (d : a) (dump : a -> canon list) (wr : a -> string list)
    (rd : string list -> a -> a * (string, a) rres) clause site_r site_w approx : ops =
  { xdump = dump x; ddump = dump d; write_m = (fun () -> wr x);
    read_m = (fun toks -> let (res, r) = rd toks d in (status_of r, dump res));
    clause; site_r; site_w; approx; asis_write = None; asis_read = None; valid = None }

let build (kind : string) (c : cursor) : ops =
  let s = next_int c in let a = next_int c in
  let o = if kind = "pmodel" || kind = "spmodel" || kind = "ppol" then next_int c else 0 in
  let ns = nat_of_int s and na = nat_of_int a and no = nat_of_int o in
  let b_model () = let disc = next_q c in let t = rd_mat3 c a s s in let r = rd_mat c s a in
    { mS = ns; mA = na; mDisc = disc; mT = t; mR = r } in
  let b_smodel () = let m = b_model () in
    { smS = ns; smA = na; smDisc = m.mDisc; smT = List.map (sparsify q_is_zero) m.mT; smR = sparsify q_is_zero m.mR } in
  let b_exp () = let ts = n_of_string (next c) in let v = rd_list a (fun () -> rd_tab c s s) in
    let r = rd_mat c s a in let m2 = rd_mat c s a in
    { eS = ns; eA = na; eTime = ts; eVisits = v; eRew = r; eM2 = m2 } in
  let b_sexp () = let e = b_exp () in
    { seS = ns; seA = na; seTime = e.eTime; seVisits = List.map (sparsify n_is_zero) e.eVisits;
      seRew = sparsify q_is_zero e.eRew; seM2 = sparsify q_is_zero e.eM2 } in
  let b_pol () = { pS = ns; pA = na; pTable = rd_mat c s a } in
  let b_pmodel () = let m = b_model () in let ob = rd_mat3 c a s o in { pmO = no; pmM = m; pmObs = ob } in
  let b_spmodel () = let m = b_pmodel () in
    { spmO = no; spmM = { smS = ns; smA = na; smDisc = m.pmM.mDisc; smT = List.map (sparsify q_is_zero) m.pmM.mT;
                          smR = sparsify q_is_zero m.pmM.mR };
      spmObs = List.map (sparsify q_is_zero) m.pmObs } in
  let b_ppol () =
    let h = next_int c in
    let vls = rd_list h (fun () -> let n = next_int c in
      rd_list n (fun () -> let v = rd_list s (fun () -> next_q c) in let act = n_of_string (next c) in
                  let ob = rd_list o (fun () -> n_of_string (next c)) in
                  { vValues = v; vAction = act; vObs = ob })) in
    { ppS = ns; ppA = na; ppO = no; ppH = nat_of_int h; ppVF = [h0_entry ns] :: vls } in
  match kind with
  | "model" -> let x = b_model () in let d = b_model () in
    { (mk x d d_model (write_model show) (read_model read_double) "roundtrip_model" "MDP::operator>>(Model)" "MDP::operator<<(Model)" false)
      with valid = Some (fun l -> valid_model_b (model_of_dump l)) }
  | "smodel" -> let x = b_smodel () in let d = b_smodel () in
    mk x d d_smodel (write_smodel show showN) (read_smodel read_double read_ulong) "roundtrip_sparse_model" "MDP::operator>>(SparseModel)" "MDP::operator<<(SparseModel)" true
  | "exp" -> let x = b_exp () in let d = b_exp () in
    mk x d d_exp (write_experience show showN) (read_experience read_double read_ulong) "roundtrip_experience" "MDP::operator>>(Experience)" "MDP::operator<<(Experience)" false
  | "sexp" -> let x = b_sexp () in let d = b_sexp () in
    let o = mk x d d_sexp (write_sexperience show showN) (read_sexperience read_double read_ulong) "roundtrip_sparse_experience" "MDP::operator>>(SparseExperience)" "MDP::operator<<(SparseExperience)" true in
    { o with asis_read = Some (fun toks -> let (res, r) = read_sexperience_asis read_double read_ulong toks d in (status_of r, d_sexp res)) }
  | "pol" -> let x = b_pol () in let d = b_pol () in
    { (mk x d d_pol (write_mdp_policy show) (read_mdp_policy read_double) "roundtrip_mdp_policy" "MDP::operator>>(Policy)" "MDP::operator<<(PolicyInterface)" false)
      with valid = Some (fun l -> valid_mdp_policy_b (policy_of_dump l)) }
  | "pmodel" -> let x = b_pmodel () in let d = b_pmodel () in
    mk x d d_pmodel (write_pomdp_model show) (read_pomdp_model read_double) "roundtrip_pomdp_model" "POMDP::operator>>(Model)" "POMDP::operator<<(Model)" false
  | "spmodel" -> let x = b_spmodel () in let d = b_spmodel () in
    mk x d d_spmodel (write_spomdp_model show showN) (read_spomdp_model read_double read_ulong) "roundtrip_sparse_pomdp_model" "POMDP::operator>>(SparseModel)" "POMDP::operator<<(SparseModel)" true
  | "ppol" -> let x = b_ppol () in let d = b_ppol () in
    let o = mk x d d_ppol (write_pomdp_policy show showN at_tok) (read_pomdp_policy read_double read_ulong split_at (fun t -> nat_of_int (String.length t))) "roundtrip_pomdp_policy" "POMDP::operator>>(Policy)" "POMDP::operator<<(Policy)" false in
    { o with asis_write = Some (fun () -> write_pomdp_policy_with showN at_tok show6 x);
             valid = Some (fun l -> valid_pomdp_policy_b (ppol_of_dump l)) }
  | k -> failwith ("unknown case kind " ^ k)

(* ---------- implementation output ---------- *)
type iload = { st : status; same : bool; dump : string list }
let next_load (r : cursor) (dd : string list) : iload =
  let st = status_of_str (next r) in
  match next r with
  | "=" -> { st; same = true; dump = dd }
  | "#" -> let l = next_list r next in { st; same = false; dump = l }
  | s -> failwith ("bad load marker " ^ s)

let rec firstn k l = if k <= 0 then [] else match l with [] -> [] | x :: t -> x :: firstn (k - 1) t
let corrupt (toks : string list) (pos : int) (rep : string) : string list =
  List.concat (List.mapi (fun i t -> if i = pos then (if rep = "<del>" then [] else [rep]) else [t]) toks)

let judge _id (c : cursor) (r : cursor) : bool * string =
  let kind = next c in
  if kind = "digits" then begin
    let a = next_q c in let b = next_q c in
    let ta = next r in let tb = next r in
    if not (q_eq a b) && ta = tb then
      oracle_fail "roundtrip_pomdp_policy" "POMDP::operator<<(Policy)" ("distinct values " ^ show a ^ " and " ^ show b ^ " are both written as " ^ ta);
    if ta <> show a || tb <> show b then disagree "write_pomdp_policy" "POMDP::operator<<(Policy)" ("impl " ^ ta ^ " " ^ tb ^ " model " ^ show a ^ " " ^ show b);
    (true, "digits")
  end else if kind = "polcopy" then begin
    (match (if at_end r then "" else peek r) with
     | "CRASH" | "SANITIZER" | "TIMEOUT" | "THROW" ->
       oracle_fail "roundtrip_mdp_policy" "MDP::Policy(const_Policy&)" ("loading into a copied policy did not survive: " ^ String.concat " " (rest r))
     | _ -> ());
    let ops = build "pol" c in
    expect r "T"; let toks = next_list r next in
    expect r "X"; let dx = next_list r next in
    expect r "D"; let dd = next_list r next in
    let st = status_of_str (next r) in
    let dcopy = next_list r next in let dsrc = next_list r next in let dcopy2 = next_list r next in
    (* O: the copy is an object of its own: loading into it shows the loaded table through the
       public interface, leaves the source alone, and does not depend on the source's lifetime *)
    if st <> St_ok then oracle_fail "roundtrip_mdp_policy" "MDP::operator>>(Policy)" "reading back into a copied policy failed";
    if dcopy <> dx then
      oracle_fail "roundtrip_mdp_policy" "MDP::Policy(const_Policy&)"
        ("a policy loaded into a copy-constructed Policy still shows " ^ (if dcopy = dd then "its source's table" else "another table") ^ " through getPolicy()");
    if dsrc <> dd then oracle_fail "roundtrip_mdp_policy" "MDP::Policy(const_Policy&)" "loading into the copy changed the source";
    if dcopy2 <> dx then oracle_fail "roundtrip_mdp_policy" "MDP::Policy(const_Policy&)" "the copy changed when its source was destroyed";
    (* C *)
    if ops.write_m () <> toks then disagree "write_pol" ops.site_w "writer tokens differ";
    let (mst, mdump) = ops.read_m toks in
    if mst <> st || not (dumps_agree ~approx:false (List.map canon_of_impl dcopy) mdump) then
      disagree "read_pol" ops.site_r "copy-then-load: model and implementation differ";
    (true, "polcopy")
  end else if kind = "fmt" then begin
    (* the caller preset the stream's formatting state before writing *)
    let prec = next_int c in let mask = next_int c in let width = next_int c in let fill = next_int c in
    let k2 = next c in
    let preset = Printf.sprintf "stream preset to precision %d, flag mask %d, width %d, fill chr(%d)" prec mask width fill in
    (match (if at_end r then "" else peek r) with
     | "CRASH" | "SANITIZER" | "TIMEOUT" | "THROW" ->
       oracle_fail "failed_load_signals_failure" ("operator>>(" ^ k2 ^ ")") (preset ^ ": the harness did not survive this case: " ^ String.concat " " (rest r))
     | _ -> ());
    let ops = build k2 c in
    expect r "T"; let toks = next_list r next in
    expect r "X"; let dx = next_list r next in
    expect r "D"; let dd = next_list r next in
    expect r "RT"; let rt = next_load r dd in
    expect r "P"; let pafter = next_int r in
    (* O: whatever the caller did to the stream, the written text loads back as the identical object *)
    if rt.st <> St_ok || rt.dump <> dx then begin
      (* whose fault: if the model's reader recovers X from the written tokens the text is good and the
         reader refused / altered it; otherwise the writer did not put X on the stream *)
      let text_good = (let (mst, mdump) = ops.read_m toks in mst = St_ok && dumps_agree ~approx:false mdump ops.xdump) in
      oracle_fail ops.clause (if text_good then ops.site_r else ops.site_w)
        (preset ^ (if rt.st <> St_ok then ": reading back the written text failed" else ": object read back differs from the one written")
         ^ "; text [" ^ String.concat " " toks ^ "]")
    end;
    (* C *)
    let cdx = List.map canon_of_impl dx in
    if not (dumps_agree ~approx:false cdx ops.xdump) then disagree "dump_X" "harness" ("impl " ^ show_dump cdx ^ " model " ^ show_dump ops.xdump);
    if pafter <> prec then disagree ("write_" ^ k2) ops.site_w (preset ^ ": the writer left the stream's precision at " ^ string_of_int pafter);
    (* adjustfield / boolalpha / unitbuf do not change a token; width applies to the first token only
       and pads it with the fill character *)
    let plain = (mask land (lnot (32 + 64 + 128 + 512 + 1024 + 2048)) = 0) && (width = 0 || fill = 32) in
    let mt = ops.write_m () in
    if plain && mt <> toks then disagree ("write_" ^ k2) ops.site_w (preset ^ ": impl [" ^ String.concat " " toks ^ "] model [" ^ String.concat " " mt ^ "]");
    let (mst, mdump) = ops.read_m toks in
    if mst <> rt.st || not (dumps_agree ~approx:ops.approx (List.map canon_of_impl rt.dump) mdump) then
      disagree ("read_" ^ k2) ops.site_r (preset ^ ": model " ^ status_str mst ^ " impl " ^ status_str rt.st);
    (List.length toks > 2, "fmt-" ^ k2)
  end else begin
    (* a crash / sanitizer report / hang / escaped exception while loading is itself a violation:
       a failed load must signal the failure, not bring the program down *)
    (match (if at_end r then "" else peek r) with
     | "CRASH" | "SANITIZER" | "TIMEOUT" | "THROW" ->
       let what = String.concat " " (rest r) in
       oracle_fail "failed_load_signals_failure" ("operator>>(" ^ kind ^ ")") ("the harness did not survive the loads of this case: " ^ what)
     | _ -> ());
    let ops = build kind c in
    let pairs = next_list c (fun c -> let p = next_int c in let t = next c in (p, t)) in
    let vocab = next_list c next in
    expect r "T"; let toks = next_list r next in
    expect r "X"; let dx = next_list r next in
    expect r "D"; let dd = next_list r next in
    expect r "RT"; let rt = next_load r dd in
    expect r "RTS"; let rts = next_load r dd in      (* same text, trailing whitespace stripped *)
    let ntok = List.length toks in
    let truncs = List.init ntok (fun n -> (Printf.sprintf "trunc@%d" n, firstn n toks)) in
    let corrs = if ntok = 0 then [] else
        List.map (fun (p, t) -> let pos = p mod ntok in (Printf.sprintf "corrupt@%d:%s" pos t, corrupt toks pos t)) pairs in
    let sweep = List.concat (List.init ntok (fun p -> List.map (fun t -> (Printf.sprintf "corrupt@%d:%s" p t, corrupt toks p t)) vocab)) in
    let ntr = List.length truncs in
    let faults = List.mapi (fun i (name, ts) -> let il = next_load r dd in (i < ntr, name, ts, il)) (truncs @ corrs @ sweep) in
    (* ---- O: on the implementation's dumps only ---- *)
    List.iter (fun (is_trunc, name, _, il) ->
        if not (load_atomic_b il.st il.same) then
          oracle_fail "failed_load_leaves_dest" ops.site_r (name ^ ": status " ^ status_str il.st ^ " but destination changed");
        if is_trunc && not (truncation_ok_b il.st il.same (il.dump = dx)) then
          oracle_fail "truncation_fails" ops.site_r (name ^ ": truncated file loaded as a different object");
        (match ops.valid with
         | Some v when il.st = St_ok && not (v il.dump) ->
           oracle_fail "loaded_object_valid" ops.site_r (name ^ ": a semantically invalid object was loaded without signalling failure")
         | _ -> ())) faults;
    let mt = ops.write_m () in
    let agrees read (il : iload) approx ts =
      let (mst, mdump) = read ts in
      mst = il.st && dumps_agree ~approx (List.map canon_of_impl il.dump) mdump in
    (* is a difference explained exactly by the known SparseTable2D reader defect? *)
    let known_stab (il : iload) ts = match ops.asis_read with
      | Some rd -> not (agrees ops.read_m il ops.approx ts) && agrees rd il ops.approx ts
      | None -> false in
    if rt.st <> St_ok || rt.dump <> dx then begin
      (match ops.asis_write with
       | Some w when toks <> mt && toks = w () ->
         oracle_fail "roundtrip_pomdp_policy" "POMDP::operator<<(Policy)" "values are written with 6 significant digits; the policy read back differs"
       | _ -> ());
      if known_stab rt toks then
        oracle_fail "sparse_table_counts_exact" "read(SparseTable2D)" "a count above 2^53 was read through a double and came back rounded";
      oracle_fail ops.clause ops.site_r (if rt.st <> St_ok then "reading back the written text failed" else "object read back differs from the one written")
    end;
    (* end of input right after the last token is still a successful, complete read *)
    if rts.st <> St_ok || rts.dump <> dx then
      oracle_fail ops.clause ops.site_r
        (if rts.st <> St_ok then "reading back the written text without its trailing whitespace failed"
         else "object read back from the text without trailing whitespace differs from the one written");
    (* ---- C ---- *)
    let cdx = List.map canon_of_impl dx and cdd = List.map canon_of_impl dd in
    if not (dumps_agree ~approx:false cdx ops.xdump) then disagree "dump_X" "harness" ("impl " ^ show_dump cdx ^ " model " ^ show_dump ops.xdump);
    if not (dumps_agree ~approx:false cdd ops.ddump) then disagree "dump_D" "harness" ("impl " ^ show_dump cdd ^ " model " ^ show_dump ops.ddump);
    if mt <> toks then disagree ("write_" ^ kind) ops.site_w ("impl [" ^ String.concat " " toks ^ "] model [" ^ String.concat " " mt ^ "]");
    let cmp name ts (il : iload) approx =
      let (mst, mdump) = ops.read_m ts in
      let idump = List.map canon_of_impl il.dump in
      if mst <> il.st || not (dumps_agree ~approx idump mdump) then begin
        if known_stab il ts then
          oracle_fail "sparse_table_counts_exact" "read(SparseTable2D)" (name ^ ": the count is extracted as a double and truncated (status " ^ status_str il.st ^ ")");
        if mst <> il.st then disagree ("read_" ^ kind) ops.site_r (name ^ ": impl " ^ status_str il.st ^ " model " ^ status_str mst);
        disagree ("read_" ^ kind) ops.site_r (name ^ ": impl " ^ show_dump idump ^ " model " ^ show_dump mdump)
      end in
    cmp "full" toks rt false;
    cmp "full-stripped" toks rts false;
    let accepted = ref 0 in
    List.iter (fun (_, name, ts, il) -> if il.st = St_ok then incr accepted; cmp name ts il ops.approx) faults;
    (ntok > 2, kind ^ (if !accepted > 0 then "+acc" else ""))
  end

let () = main_loop judge
