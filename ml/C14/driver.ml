(* ml/C14/driver.ml — compares the extracted model with the implementation's outputs (C) and
   evaluates the spec clauses directly on the implementation's outputs (O). *)
open Model
open Vio

let nats_eq (a : nat list) (b : nat list) = (List.map int_of_nat a) = (List.map int_of_nat b)

let judge _id (c : cursor) (r : cursor) : bool * string =
  let kind = next c in
  match kind with
  | "idx" ->
    let space = next_nats c in let id = next_nat c in
    let i_fs = next_nat r in let i_f = next_nats r in let i_back = next_nat r in
    (* O first: round trip and range on the implementation's own outputs *)
    if int_of_nat id < int_of_nat (factorSpace space) then begin
      if int_of_nat i_back <> int_of_nat id then oracle_fail "toIndex_toFactors" "toIndex" "toIndex(toFactors(id)) != id";
      if List.length i_f <> List.length space then oracle_fail "toIndex_toFactors" "toFactors" "wrong length";
      List.iter2 (fun sp x -> if int_of_nat x >= int_of_nat sp then oracle_fail "toIndex_toFactors" "toFactors" "factor out of range") space i_f
    end;
    (* C *)
    if int_of_nat (factorSpace space) <> int_of_nat i_fs then disagree "factorSpace" "factorSpace" "model/impl differ";
    if not (nats_eq (toFactors space id) i_f) then disagree "toFactors" "toFactors" ("impl " ^ str_nats i_f ^ " model " ^ str_nats (toFactors space id));
    if int_of_nat (toIndex space i_f) <> int_of_nat i_back then disagree "toIndex" "toIndex" "model/impl differ";
    (List.length space > 1, "idx")
  | "fac" ->
    let space = next_nats c in let f = next_nats c in
    let i_id = next_nat r in let i_back = next_nats r in
    if not (nats_eq i_back f) then oracle_fail "toFactors_toIndex" "toFactors" "toFactors(toIndex(f)) != f";
    if int_of_nat i_id >= int_of_nat (factorSpace space) then oracle_fail "toFactors_toIndex" "toIndex" "index out of range";
    if int_of_nat (toIndex space f) <> int_of_nat i_id then disagree "toIndex" "toIndex" "model/impl differ";
    if not (nats_eq (toFactors space i_id) i_back) then disagree "toFactors" "toFactors" "model/impl differ";
    (List.length space > 1, "fac")
  | "pidx" ->
    let space = next_nats c in let keys = next_nats c in let id = next_nat c in
    let i_fs = next_nat r in let i_v = next_nats r in let i_back = next_nat r in
    if int_of_nat id < int_of_nat (factorSpacePartial keys space) && int_of_nat i_back <> int_of_nat id then oracle_fail "partial_roundtrip_index" "toIndexPartial" "round trip failed";
    if int_of_nat (factorSpacePartial keys space) <> int_of_nat i_fs then disagree "factorSpacePartial" "factorSpacePartial" "differ";
    if not (nats_eq (toFactorsPartial keys space id) i_v) then disagree "toFactorsPartial" "toFactorsPartial" "differ";
    if int_of_nat (toIndexPartialPF space keys i_v) <> int_of_nat i_back then disagree "toIndexPartialPF" "toIndexPartial" "differ";
    (List.length keys > 1, "pidx")
  | "pfac" ->
    let space = next_nats c in let keys = next_nats c in let f = next_nats c in
    let i_id = next_nat r in let i_back = next_nats r in
    let expect = List.map (fun k -> List.nth f (int_of_nat k)) keys in
    if not (nats_eq i_back expect) then oracle_fail "partial_roundtrip_factors" "toFactorsPartial" "round trip failed";
    if int_of_nat (toIndexPartial keys space f) <> int_of_nat i_id then disagree "toIndexPartial" "toIndexPartial" "differ";
    if not (nats_eq (toFactorsPartial keys space i_id) i_back) then disagree "toFactorsPartial" "toFactorsPartial" "differ";
    (List.length keys > 1, "pfac")
  | k -> failwith ("unknown case kind " ^ k)

let () = main_loop judge
