(* ml/C14/driver.ml — compares the extracted model with the implementation's outputs (C) and
   evaluates the spec clauses directly on the implementation's outputs (O). *)
open Model
open Vio

let nats_eq (a : nat list) (b : nat list) = (List.map int_of_nat a) = (List.map int_of_nat b)


(* ---------- factored vectors: parsing + an independent flat evaluator (plain ints / Q) ---------- *)
let read_bf c = let tag = next_nats c in let vals = next_qs c in { bfTag = tag; bfVals = vals }
let read_fv c = next_list c read_bf
let il = List.map int_of_nat
let o_digits (sp : int list) (i : int) : int array =
  let r = ref i in Array.of_list (List.map (fun s -> let d = !r mod s in r := !r / s; d) sp)
let o_bf_value (sp : int array) (b : bf) (x : int array) : q =
  let idx = ref 0 and mult = ref 1 in
  List.iter (fun k -> idx := !idx + !mult * x.(k); mult := !mult * sp.(k)) (il b.bfTag);
  (match List.nth_opt b.bfVals !idx with Some v -> v | None -> failwith "o_bf_value: index out of range")
let o_flat sp (fv : bf list) x = List.fold_left (fun a b -> q_add a (o_bf_value sp b x)) q_zero fv
let qs_eq a b = List.length a = List.length b && List.for_all2 q_eq a b
let bf_eq (a : bf) (b : bf) = nats_eq a.bfTag b.bfTag && qs_eq a.bfVals b.bfVals
let fv_eq a b = List.length a = List.length b && List.for_all2 bf_eq a b
let str_fv (fv : bf list) = String.concat " | " (List.map (fun b -> "[" ^ str_nats b.bfTag ^ "] " ^ str_qs b.bfVals) fv)
let all_assignments (space : nat list) : int array list =
  let sp = il space in
  let n = List.fold_left ( * ) 1 sp in
  List.init n (fun i -> o_digits sp i)

(* ---------- FactoredMatrix2D ---------- *)
let read_bm c = let tag = next_nats c in let atag = next_nats c in let rows = next_int c in let cols = next_int c in
  { bmTag = tag; bmActionTag = atag; bmVals = List.init rows (fun _ -> List.init cols (fun _ -> next_q c)) }
let read_fm c = next_list c read_bm
let o_radix (sp : int array) (tag : int list) (x : int array) =
  let idx = ref 0 and mult = ref 1 in List.iter (fun k -> idx := !idx + !mult * x.(k); mult := !mult * sp.(k)) tag; !idx
let o_bm_value spS spA (b : bm) s a : q =
  match List.nth_opt b.bmVals (o_radix spS (il b.bmTag) s) with
  | None -> failwith "o_bm_value: row out of range"
  | Some row -> (match List.nth_opt row (o_radix spA (il b.bmActionTag) a) with Some v -> v | None -> failwith "o_bm_value: column out of range")
let o_flat2 spS spA (fm : bm list) s a = List.fold_left (fun acc b -> q_add acc (o_bm_value spS spA b s a)) q_zero fm
let bm_eq (a : bm) (b : bm) = nats_eq a.bmTag b.bmTag && nats_eq a.bmActionTag b.bmActionTag
                              && List.length a.bmVals = List.length b.bmVals && List.for_all2 qs_eq a.bmVals b.bmVals
let fm_eq a b = List.length a = List.length b && List.for_all2 bm_eq a b

(* ---------- learners ---------- *)
let read_mat c = let rows = next_int c in let cols = next_int c in List.init rows (fun _ -> List.init cols (fun _ -> next_q c))
let read_mat_checked c clause site =
  let rows = next_int c in let cols = next_int c in
  List.init rows (fun _ -> List.init cols (fun _ ->
      match next_x c with Fin v -> v | _ -> oracle_fail clause site "non-finite entry in the Q-function"))
let mat_eq a b = List.length a = List.length b && List.for_all2 qs_eq a b
let mat_close a b = List.length a = List.length b && List.for_all2 (fun x y -> List.length x = List.length y && List.for_all2 (fun u v -> q_close u v) x y) a b
let q_sum l = List.fold_left q_add q_zero l
let q_maxl l = match l with [] -> q_zero | x :: t -> List.fold_left q_max x t

let judge _id (c : cursor) (r : cursor) : bool * string =
  let kind = next c in
  match kind with
  | "idx" ->
    let space = next_nats c in let id = next_nat c in
    let i_fs = next_nat r in let i_f = next_nats r in let i_back = next_nat r in
    (* O first: round trip and range on the implementation's own outputs *)
    if int_of_nat id < int_of_nat (factorSpace space) then begin
      if int_of_nat i_back <> int_of_nat id then oracle_fail "toIndex_toFactors" "toIndex" "toIndex(toFactors(id)) != id";
      if List.length i_f <> List.length space then oracle_fail "toIndex_toFactors" "toFactors" "wrong length";
      List.iter2 (fun sp x -> if int_of_nat x >= int_of_nat sp then oracle_fail "toIndex_toFactors" "toFactors" "factor out of range") space i_f
    end;
    (* C *)
    if int_of_nat (factorSpace space) <> int_of_nat i_fs then disagree "factorSpace" "factorSpace" "model/impl differ";
    if not (nats_eq (toFactors space id) i_f) then disagree "toFactors" "toFactors" ("impl " ^ str_nats i_f ^ " model " ^ str_nats (toFactors space id));
    if int_of_nat (toIndex space i_f) <> int_of_nat i_back then disagree "toIndex" "toIndex" "model/impl differ";
    (List.length space > 1, "idx")
  | "fac" ->
    let space = next_nats c in let f = next_nats c in
    let i_id = next_nat r in let i_back = next_nats r in
    if not (nats_eq i_back f) then oracle_fail "toFactors_toIndex" "toFactors" "toFactors(toIndex(f)) != f";
    if int_of_nat i_id >= int_of_nat (factorSpace space) then oracle_fail "toFactors_toIndex" "toIndex" "index out of range";
    if int_of_nat (toIndex space f) <> int_of_nat i_id then disagree "toIndex" "toIndex" "model/impl differ";
    if not (nats_eq (toFactors space i_id) i_back) then disagree "toFactors" "toFactors" "model/impl differ";
    (List.length space > 1, "fac")
  | "pidx" ->
    let space = next_nats c in let keys = next_nats c in let id = next_nat c in
    let i_fs = next_nat r in let i_v = next_nats r in let i_back = next_nat r in
    if int_of_nat id < int_of_nat (factorSpacePartial keys space) && int_of_nat i_back <> int_of_nat id then oracle_fail "partial_roundtrip_index" "toIndexPartial" "round trip failed";
    if int_of_nat (factorSpacePartial keys space) <> int_of_nat i_fs then disagree "factorSpacePartial" "factorSpacePartial" "differ";
    if not (nats_eq (toFactorsPartial keys space id) i_v) then disagree "toFactorsPartial" "toFactorsPartial" "differ";
    if int_of_nat (toIndexPartialPF space keys i_v) <> int_of_nat i_back then disagree "toIndexPartialPF" "toIndexPartial" "differ";
    (List.length keys > 1, "pidx")
  | "pfac" ->
    let space = next_nats c in let keys = next_nats c in let f = next_nats c in
    let i_id = next_nat r in let i_back = next_nats r in
    let expect = List.map (fun k -> List.nth f (int_of_nat k)) keys in
    if not (nats_eq i_back expect) then oracle_fail "partial_roundtrip_factors" "toFactorsPartial" "round trip failed";
    if int_of_nat (toIndexPartial keys space f) <> int_of_nat i_id then disagree "toIndexPartial" "toIndexPartial" "differ";
    if not (nats_eq (toFactorsPartial keys space i_id) i_back) then disagree "toFactorsPartial" "toFactorsPartial" "differ";
    (List.length keys > 1, "pfac")
  | "enum" | "enumall" | "enumskip" | "enumskipall" ->
    let space = next_nats c in
    let (e, keys0) =
      (match kind with
       | "enum" -> let keys = next_nats c in (Some (pfe_keys space keys), keys)
       | "enumall" -> (Some (pfe_all space), [])
       | "enumskip" -> let keys = next_nats c in let skip = next_nat c in let missing = next_int c <> 0 in
         (pfe_skip space keys skip missing, keys)
       | _ -> let skip = next_nat c in (Some (pfe_skip_all space skip), [])) in
    ignore keys0;
    let i_skip = next_int r in let i_size = next_int r in let i_keys = next_nats r in
    let i_seen = next_list r next_nats in
    let i_rvalid = next_int r in let i_rvals = next_nats r in
    (* O: independent mixed-radix oracle on the implementation's own output *)
    let sp = Array.of_list (List.map int_of_nat space) in
    let ks = List.map int_of_nat i_keys in
    let nk = List.length ks in
    let expected_count = if nk = 0 then 0 else
        List.fold_left ( * ) 1 (List.mapi (fun p k -> if p = i_skip then 1 else sp.(k)) ks) in
    if i_size <> expected_count then oracle_fail "enumerator_visits_each_once_in_order" "PartialFactorsEnumerator::size" (Printf.sprintf "size %d expected %d" i_size expected_count);
    if List.length i_seen <> expected_count then oracle_fail "enumerator_visits_each_once_in_order" "PartialFactorsEnumerator::advance" (Printf.sprintf "visited %d expected %d" (List.length i_seen) expected_count);
    List.iteri (fun i v ->
        let v = List.map int_of_nat v in
        if List.length v <> nk then oracle_fail "enumerator_visits_each_once_in_order" "PartialFactorsEnumerator::advance" "wrong length";
        (* decode: digits of i over the non-skipped keys, lowest first *)
        let rem = ref i in
        List.iteri (fun p k ->
            let x = List.nth v p in
            if p = i_skip then (if x <> 0 then oracle_fail "enumerator_visits_each_once_in_order" "PartialFactorsEnumerator::advance" "skipped factor not held at 0")
            else begin
              if x <> !rem mod sp.(k) then oracle_fail "enumerator_visits_each_once_in_order" "PartialFactorsEnumerator::advance" (Printf.sprintf "element %d is not the mixed-radix expansion of %d" i i);
              rem := !rem / sp.(k)
            end) ks) i_seen;
    if expected_count > 0 && (i_rvalid <> 1 || List.exists (fun x -> int_of_nat x <> 0) i_rvals || List.length i_rvals <> nk) then
      oracle_fail "enumerator_visits_each_once_in_order" "PartialFactorsEnumerator::reset" "reset does not return to the first element";
    (* C *)
    (match e with
     | None -> (false, kind ^ "_uninit")
     | Some e ->
       if int_of_nat e.pfeSkip <> i_skip then disagree "pfe_ctor" "PartialFactorsEnumerator" "skip id differs";
       if not (nats_eq e.pfeKeys i_keys) then disagree "pfe_ctor" "PartialFactorsEnumerator" "keys differ";
       if int_of_nat (pfe_size e) <> i_size then disagree "pfe_size" "PartialFactorsEnumerator::size" "differ";
       (match pfe_visit (nat_of_int (i_size + 5)) e with
        | None -> disagree "pfe_visit" "PartialFactorsEnumerator::advance" "model out of fuel"
        | Some l ->
          if List.length l <> List.length i_seen || not (List.for_all2 nats_eq l i_seen) then
            disagree "pfe_visit" "PartialFactorsEnumerator::advance" "visited sequences differ";
          let spec = List.init (int_of_nat (enum_count space e.pfeKeys e.pfeSkip)) (fun i -> enum_nth space e.pfeKeys e.pfeSkip (nat_of_int i)) in
          if List.length l <> List.length spec || not (List.for_all2 nats_eq l spec) then
            disagree "enumerator_visits_each_once_in_order" "model" "model differs from its spec");
       (expected_count > 1, kind))
  | "ienum" | "ienumall" ->
    let space = next_nats c in
    let (e, keys, fixed, v, missing) =
      if kind = "ienum" then
        let keys = next_nats c in let fixed = next_nat c in let v = next_nat c in let missing = next_int c <> 0 in
        (pie_make space keys fixed v missing, keys, fixed, v, missing)
      else
        let fixed = next_nat c in let v = next_nat c in
        (pie_make_all space fixed v, List.init (List.length space) nat_of_int, fixed, v, false) in
    let i_seen = next_nats r in
    (* O: the indices, in the enumeration order of the keys (with the fixed factor inserted in
       sorted position when missing), whose digit for the fixed factor equals v *)
    let sp = Array.of_list (List.map int_of_nat space) in
    let ks = List.map int_of_nat keys in
    let fx = int_of_nat fixed in
    let ks = if missing then List.sort compare (fx :: ks) else ks in
    let total = List.fold_left (fun a k -> a * sp.(k)) 1 ks in
    let digit_of i = let rem = ref i and d = ref (-1) in
      List.iter (fun k -> if k = fx then d := !rem mod sp.(k); rem := !rem / sp.(k)) ks; !d in
    let expected = List.filter (fun i -> digit_of i = int_of_nat v) (List.init total (fun i -> i)) in
    if List.map int_of_nat i_seen <> expected then oracle_fail "index_enumerator_spec" "PartialIndexEnumerator" ("visited " ^ str_nats i_seen);
    (match pie_visit (nat_of_int (total + 5)) e with
     | None -> disagree "pie_visit" "PartialIndexEnumerator" "model out of fuel"
     | Some l -> if not (nats_eq l i_seen) then disagree "pie_visit" "PartialIndexEnumerator" ("model " ^ str_nats l ^ " impl " ^ str_nats i_seen));
    (List.length expected > 1, kind)
  | "merge" ->
    let lk = next_nats c in let lv = next_nats c in let rk = next_nats c in let rv = next_nats c in
    let i_mk = next_nats r in let i_mv = next_nats r in let i_vals = next_nats r in
    let i_keys = next_nats r in
    let i_matches = next_list r (fun r -> let a = next_int r in let b = next_int r in (a, b)) in
    let i_keys2 = next_nats r in
    (* O: sorted union of the keys; value from rhs on common keys, else from the owner *)
    let il = List.map int_of_nat in
    let union = List.sort_uniq compare (il lk @ il rk) in
    if il i_keys <> union || il i_mk <> union || il i_keys2 <> union then oracle_fail "merge_is_sorted_union" "merge" "keys are not the sorted union";
    let value k = (try List.assoc k (List.combine (il rk) (il rv)) with Not_found -> List.assoc k (List.combine (il lk) (il lv))) in
    if il i_mv <> List.map value union || il i_vals <> List.map value union then oracle_fail "merge_is_sorted_union" "merge" "values do not follow the keys";
    let exp_matches = List.filter_map (fun k ->
        let idx l = let rec go i = function [] -> None | x :: t -> if x = k then Some i else go (i + 1) t in go 0 l in
        match idx (il lk), idx (il rk) with Some a, Some b -> Some (a, b) | _ -> None) union in
    if i_matches <> exp_matches then oracle_fail "merge_is_sorted_union" "merge" "matches are not the common key positions";
    let (mk, mv) = merge_pf lk lv rk rv in
    if not (nats_eq mk i_mk && nats_eq mv i_mv) then disagree "merge_pf" "merge" "differ";
    if not (nats_eq (merge_vals lk lv rk rv) i_vals) then disagree "merge_vals" "merge" "differ";
    let (k2, ms) = merge_keys_matches lk rk in
    if not (nats_eq k2 i_keys) then disagree "merge_keys" "merge" "differ";
    if List.map (fun (a, b) -> (int_of_nat a, int_of_nat b)) ms <> i_matches then disagree "merge_keys_matches" "merge" "differ";
    (i_matches <> [] && List.length union > List.length lk, "merge")
  | "rmf" ->
    let k = next_nats c in let v = next_nats c in let f = next_nat c in
    let i_k = next_nats r in let i_v = next_nats r in
    let il = List.map int_of_nat in
    let pairs = List.filter (fun (a, _) -> a <> int_of_nat f) (List.combine (il k) (il v)) in
    if List.combine (il i_k) (il i_v) <> pairs then oracle_fail "removeFactor_spec" "removeFactor" "not the input minus the factor";
    let (mk, mv) = removeFactor k v f in
    if not (nats_eq mk i_k && nats_eq mv i_v) then disagree "removeFactor" "removeFactor" "differ";
    (List.length i_k < List.length k, "rmf")
  | "match" ->
    let lk = next_nats c in let lv = next_nats c in let rk = next_nats c in let rv = next_nats c in
    let i_a = next_int r in let i_b = next_int r in
    let il = List.map int_of_nat in
    let l = List.combine (il lk) (il lv) and rr = List.combine (il rk) (il rv) in
    let expected = List.for_all (fun (k, v) -> match List.assoc_opt k rr with Some v' -> v = v' | None -> true) l in
    if (i_a <> 0) <> expected || (i_b <> 0) <> expected then oracle_fail "match_spec" "match" "common factors compared wrongly";
    if match_pf lk lv rk rv <> expected then disagree "match_pf" "match" "differ";
    (not expected, "match")
  | "matchf" ->
    let lhs = next_nats c in let rk = next_nats c in let rv = next_nats c in
    let i_a = next_int r in
    let il = List.map int_of_nat in
    let expected = List.for_all2 (fun k v -> List.nth (il lhs) k = v) (il rk) (il rv) in
    if (i_a <> 0) <> expected then oracle_fail "match_spec" "match" "Factors vs PartialFactors compared wrongly";
    if match_f_pf lhs rk rv <> expected then disagree "match_f_pf" "match" "differ";
    (not expected, "matchf")
  | "matchk" ->
    let k = next_nats c in let lhs = next_nats c in let rhs = next_nats c in
    let i_a = next_int r in
    let il = List.map int_of_nat in
    let expected = List.for_all (fun k -> List.nth (il lhs) k = List.nth (il rhs) k) (il k) in
    if (i_a <> 0) <> expected then oracle_fail "match_spec" "match" "keys compared wrongly";
    if match_keys k lhs rhs <> expected then disagree "match_keys" "match" "differ";
    (not expected, "matchk")
  | "matchp" ->
    let lk = next_nats c in let rk = next_nats c in let lhs = next_nats c in let rhs = next_nats c in
    let i_a = next_int r in
    let (_, ms) = merge_keys_matches lk rk in
    if match_pairs ms lhs rhs <> (i_a <> 0) then disagree "match_pairs" "match" "differ";
    (ms <> [], "matchp")
  | "chk" ->
    let space = next_nats c in let tag = next_nats c in
    let i_e = next_int r in let i_p = next_int r in
    let il = List.map int_of_nat in
    let n = List.length space in
    let t = il tag in
    let rec strictly = function a :: (b :: _ as tl) -> a < b && strictly tl | _ -> true in
    let valid = t <> [] && List.length t <= n && List.for_all (fun x -> x < n) t && strictly t in
    if (i_e = 0) <> valid then oracle_fail "checkTag_spec" "checkTag" "accepts exactly the non-empty strictly sorted in-range tags";
    let (me, mp) = checkTag space tag in
    let code = (match me with TENone -> 0 | TENoElements -> 1 | TETooManyElements -> 2 | TEIdTooHigh -> 3 | TENotSorted -> 4 | TEDuplicates -> 5) in
    if code <> i_e || int_of_nat mp <> i_p then disagree "checkTag" "checkTag" (Printf.sprintf "model (%d,%d) impl (%d,%d)" code (int_of_nat mp) i_e i_p);
    (i_e <> 0, "chk")
  | "kpf" ->
    let ids = next_nats c in let space = next_nats c in let pk = next_nats c in let pv = next_nats c in
    let i_a = next_int r in let i_b = next_int r in
    (* O (round 6, theorem toIndexPF_spec): strictly increasing in-range keys => sum of value * product of ALL lower sizes *)
    let rec strict_l l = match l with x :: (y :: _ as t) -> int_of_nat x < int_of_nat y && strict_l t | _ -> true in
    if strict_l pk && List.for_all (fun k -> int_of_nat k < List.length space) pk && List.length pk = List.length pv && pk <> []
       && int_of_nat (pf_index space pk pv) <> i_b then
      oracle_fail "toIndexPF_spec" "toIndex" (Printf.sprintf "spec %d impl %d" (int_of_nat (pf_index space pk pv)) i_b);
    (match toIndexPartialKPF ids space pk pv with
     | Some m -> if int_of_nat m <> i_a then disagree "toIndexPartialKPF" "toIndexPartial" "differ"
     | None -> disagree "toIndexPartialKPF" "toIndexPartial" "generator precondition: ids must be a subsequence of the keys");
    if int_of_nat (toIndexPF space pk pv) <> i_b then disagree "toIndexPF" "toIndex" (Printf.sprintf "model %d impl %d" (int_of_nat (toIndexPF space pk pv)) i_b);
    (List.length ids > 1, "kpf")
  | "iskip" ->
    let ids = next_nats c in let space = next_nats c in let f = next_nats c in let m = next_nat c in
    let i_a = next_int r in let i_b = next_int r in
    let (a, b) = toIndexPartialAndSkip ids space f m in
    if int_of_nat a <> i_a || int_of_nat b <> i_b then disagree "toIndexPartialAndSkip" "toIndexPartialAndSkip" "differ";
    (List.length ids > 1, "iskip")
  | "bfop" ->
    let op = next c in let space = next_nats c in let l = read_bf c in let rr = read_bf c in
    let i_tag = next_nats r in let i_alloc = next_int r in let i_vals = next_qs r in
    let ires = { bfTag = i_tag; bfVals = i_vals } in
    let sp = Array.of_list (il space) in
    let (f, clause, m) = (match op with
        | "plus" -> (q_add, "plus_flat", bf_plus space l rr)
        | "minus" -> (q_sub, "minus_flat", bf_minus space l rr)
        | _ -> (q_mul, "dot_flat", bf_dot space l rr)) in
    List.iter (fun x ->
        let expect = f (o_bf_value sp l x) (o_bf_value sp rr x) in
        let got = (try o_bf_value sp ires x with Failure _ -> oracle_fail clause op "result has too few values") in
        if not (q_eq got expect) then oracle_fail clause op ("value " ^ string_of_q got ^ " expected " ^ string_of_q expect)) (all_assignments space);
    if not (bf_eq m ires) then disagree "bf_binop" op ("model " ^ str_fv [m] ^ " impl " ^ str_fv [ires]);
    if int_of_nat (bf_binop_alloc space l rr) <> i_alloc then disagree "bf_binop_alloc" op (Printf.sprintf "allocated %d" i_alloc);
    (List.length i_tag > List.length l.bfTag && List.length i_tag > List.length rr.bfTag, "bfop_" ^ op)
  | "subop" ->
    let op = next c in let space = next_nats c in let l = read_bf c in let rr = read_bf c in
    let ires = read_bf r in
    let sp = Array.of_list (il space) in
    let (f, clause, m) = (match op with
        | "plus" -> (q_add, "plus_flat", plusEqualSubset space l rr)
        | _ -> (q_sub, "minus_flat", minusEqualSubset space l rr)) in
    List.iter (fun x ->
        let expect = f (o_bf_value sp l x) (o_bf_value sp rr x) in
        if not (q_eq (o_bf_value sp ires x) expect) then oracle_fail clause (op ^ "EqualSubset") "value differs from the flat operation") (all_assignments space);
    if not (bf_eq m ires) then disagree "subset_op" (op ^ "EqualSubset") ("model " ^ str_fv [m] ^ " impl " ^ str_fv [ires]);
    (List.length l.bfTag > List.length rr.bfTag, "subop_" ^ op)
  | "fv" ->
    let op = next c in let space = next_nats c in let fv = read_fv c in
    let sp = Array.of_list (il space) in
    let xs = all_assignments space in
    let tol_eq tol a b = if tol then q_le (q_abs (q_sub a b)) (q_of_ints 1 100000) else q_eq a b in
    if op = "getw" then begin
      let w = next_qs c in
      let i_flat = next_qs r in
      let nb = List.length fv in
      let const = if List.length w = nb + 1 then List.nth w nb else q_zero in
      let expect x = List.fold_left (fun a (b, wi) -> q_add a (q_mul wi (o_bf_value sp b x))) const (List.combine fv (List.filteri (fun i _ -> i < nb) w)) in
      List.iter2 (fun x got -> if not (q_eq got (expect x)) then oracle_fail "weighted_flat" "FactoredVector::getValue" "weighted value differs from the flat weighted sum") xs i_flat;
      List.iter2 (fun x got -> if not (q_eq got (getValueW space fv (Array.to_list (Array.map nat_of_int x)) w)) then disagree "getValueW" "FactoredVector::getValue" "differ") xs i_flat;
      (nb > 1, "fv_getw")
    end else begin
      (* arguments *)
      let (expect, clause, site, model, tol) =
        (match op with
         | "plus" | "plusrv" | "plusc" ->
           let b = read_bf c in
           ((fun x -> q_add (o_flat sp fv x) (o_bf_value sp b x)), "plus_flat", "plusEqual", plusEqual space fv b, false)
         | "minus" | "minusc" ->
           let b = read_bf c in let cz = next_int c <> 0 in
           ((fun x -> q_sub (o_flat sp fv x) (o_bf_value sp b x)), "minus_flat", "minusEqual", minusEqual space fv b cz, cz)
         | "plusfv" | "plusfvrv" ->
           let rr = read_fv c in
           ((fun x -> q_add (o_flat sp fv x) (o_flat sp rr x)), "plus_flat", "plusEqual", plusEqualFV space fv rr, false)
         | "minusfv" ->
           let rr = read_fv c in let cz = next_int c <> 0 in
           ((fun x -> q_sub (o_flat sp fv x) (o_flat sp rr x)), "minus_flat", "minusEqual", minusEqualFV space fv rr cz, cz)
         | "scale" ->
           let v = next_q c in
           ((fun x -> q_mul v (o_flat sp fv x)), "weighted_flat", "FactoredVector::operator*=", scale fv v, false)
         | "scalew" ->
           let w = next_qs c in
           let nb = List.length fv in
           let const = if List.length w = nb + 1 then List.nth w nb else q_zero in
           ((fun x -> List.fold_left (fun a (b, wi) -> q_add a (q_mul wi (o_bf_value sp b x))) const (List.combine fv (List.filteri (fun i _ -> i < nb) w))),
            "weighted_flat", "FactoredVector::operator*=", scaleW fv w, false)
         | _ -> failwith ("unknown fv op " ^ op)) in
      let i_fv = read_fv r in
      let i_flat = next_qs r in
      (* O: the flat expansion of the result is the operation on the flat expansions of the inputs *)
      List.iter2 (fun x got ->
          if not (tol_eq tol got (expect x)) then
            oracle_fail clause site ("at assignment " ^ str_ints (Array.to_list x) ^ " value " ^ string_of_q got ^ " expected " ^ string_of_q (expect x))) xs i_flat;
      (* O: getValue is the sum of the bases at that assignment *)
      List.iter2 (fun x got -> if not (q_eq got (o_flat sp i_fv x)) then oracle_fail "getValue_flat" "FactoredVector::getValue" "getValue differs from the sum of its bases") xs i_flat;
      (* C *)
      if not (fv_eq model i_fv) then disagree op site ("model " ^ str_fv model ^ " impl " ^ str_fv i_fv);
      List.iter2 (fun x got -> if not (q_eq got (getValue space i_fv (Array.to_list (Array.map nat_of_int x)))) then disagree "getValue" "FactoredVector::getValue" "differ") xs i_flat;
      (List.length fv > 0 && List.length xs > 1, "fv_" ^ op)
    end
  | "ddnpush" ->
    let sS = next_nats c in let sA = next_nats c in
    let pss = next_list c (fun c -> let ag = next_nats c in let fs = next_list c next_nats in { psAgents = ag; psFeatures = fs }) in
    let g = ref (graph_new sS sA) in
    let nS = List.length sS and nA = List.length sA in
    let rec strictly = function a :: (b :: _ as tl) -> a < b && strictly tl | _ -> true in
    let tag_valid n t = t <> [] && List.for_all (fun x -> x < n) t && strictly t in
    let count = ref 0 in
    let rejected = ref false in
    List.iter (fun ps ->
        let got = next r in
        (* O: push accepts exactly the well-formed parent sets while there is room *)
        let ag = il ps.psAgents in
        let spA = Array.of_list (il sA) in
        let valid = !count < nS && tag_valid nA ag
                    && List.length ps.psFeatures = List.fold_left (fun a k -> a * spA.(k)) 1 ag
                    && List.for_all (fun t -> tag_valid nS (il t)) ps.psFeatures in
        if (got = "ok") <> valid then oracle_fail "ddn_push_validates" "DDNGraph::push" ("push returned " ^ got);
        let m = (match graph_push !g ps with
            | PushOk g' -> g := g'; "ok"
            | PushRuntimeError -> "runtime_error"
            | PushInvalidArgument -> "invalid_argument") in
        if m <> got then disagree "graph_push" "DDNGraph::push" ("model " ^ m ^ " impl " ^ got);
        if got = "ok" then incr count else rejected := true) pss;
    let i_n = next_int r in
    if i_n <> !count then oracle_fail "ddn_push_validates" "DDNGraph::push" "a rejected push changed the graph";
    List.iteri (fun f _ -> let sz = next_int r in
                 if sz <> int_of_nat (getSize !g (nat_of_int f)) then disagree "getSize" "DDNGraph::getSize" "differ") !g.gParents;
    (!rejected, "ddnpush")
  | "ddn" ->
    let sS = next_nats c in let sA = next_nats c in
    let nS = List.length sS in
    let pss = List.init nS (fun _ -> let ag = next_nats c in let fs = next_list c next_nats in { psAgents = ag; psFeatures = fs }) in
    let g = List.fold_left (fun g ps -> match graph_push g ps with PushOk g' -> g' | _ -> failwith "generator: invalid parent set") (graph_new sS sA) pss in
    let ts = List.init nS (fun _ -> let rows = next_int c in let cols = next_int c in
                            List.init rows (fun _ -> List.init cols (fun _ -> next_q c))) in
    let spS = Array.of_list (il sS) and spA = Array.of_list (il sA) in
    (* independent oracle: prefix sums + positional value *)
    let radix sp tag x = let idx = ref 0 and mult = ref 1 in
      List.iter (fun k -> idx := !idx + !mult * x.(k); mult := !mult * sp.(k)) tag; !idx in
    let fsize sp tag = List.fold_left (fun a k -> a * sp.(k)) 1 tag in
    let psA = Array.of_list pss in
    let o_row f s a =
      let ps = psA.(f) in
      let aid = radix spA (il ps.psAgents) a in
      let before = List.filteri (fun i _ -> i < aid) ps.psFeatures in
      let start = List.fold_left (fun acc t -> acc + fsize spS (il t)) 0 before in
      (aid, radix spS (il (List.nth ps.psFeatures aid)) s, start) in
    let tsA = Array.of_list (List.map (fun m -> Array.of_list (List.map Array.of_list m)) ts) in
    let o_prob s a s1 =
      let p = ref q_one in
      for f = 0 to nS - 1 do let (_, pid, start) = o_row f s a in p := q_mul !p tsA.(f).(start + pid).(s1.(f)) done; !p in
    (* sizes and reverse lookup *)
    for f = 0 to nS - 1 do
      let ps = psA.(f) in
      let i_size = next_int r in let i_psz = next_int r in
      let sizes = List.map (fun t -> fsize spS (il t)) ps.psFeatures in
      let total = List.fold_left ( + ) 0 sizes in
      if i_size <> total then oracle_fail "ddn_row_layout" "DDNGraph::getSize" "size is not the sum of the parent-set sizes";
      if i_psz <> List.length sizes then oracle_fail "ddn_row_layout" "DDNGraph::getPartialSize" "differ";
      List.iteri (fun a sz -> let got = next_int r in
                   if got <> sz then oracle_fail "ddn_row_layout" "DDNGraph::getPartialSize" "differ";
                   if int_of_nat (getPartialSizeA g (nat_of_int f) (nat_of_int a)) <> got then disagree "getPartialSizeA" "DDNGraph::getPartialSize" "differ") sizes;
      if int_of_nat (getSize g (nat_of_int f)) <> i_size then disagree "getSize" "DDNGraph::getSize" "differ";
      for j = 0 to total - 1 do
        let i_p = next_int r in let i_a = next_int r in
        (* O: (p, a) is the unique pair with start[a] + p = j, p < size[a] *)
        let start = List.fold_left ( + ) 0 (List.filteri (fun i _ -> i < i_a) sizes) in
        if i_a >= List.length sizes || start + i_p <> j || i_p >= List.nth sizes i_a then
          oracle_fail "ddn_row_layout" "DDNGraph::getIds" "reverse lookup is not the inverse of getId";
        let (mp, ma) = getIdsRev g (nat_of_int f) (nat_of_int j) in
        if int_of_nat mp <> i_p || int_of_nat ma <> i_a then disagree "getIdsRev" "DDNGraph::getIds" "differ"
      done
    done;
    let xsS = all_assignments sS in
    let nq = next_int c in
    for _q = 1 to nq do
      let s = next_nats c in let a = next_nats c in
      let sa = Array.of_list (il s) and aa = Array.of_list (il a) in
      for f = 0 to nS - 1 do
        let i_p = next_int r in let i_aid = next_int r in let i_id = next_int r in let i_idp = next_int r in
        let (aid, pid, start) = o_row f sa aa in
        if i_p <> pid || i_aid <> aid || i_id <> start + pid || i_idp <> i_id then
          oracle_fail "ddn_row_layout" "DDNGraph::getId" "row is not startIds[feature][actionId] + parentId";
        let (mp, ma) = getIds g (nat_of_int f) s a in
        if int_of_nat mp <> i_p || int_of_nat ma <> i_aid then disagree "getIds" "DDNGraph::getIds" "differ";
        if int_of_nat (getId g (nat_of_int f) s a) <> i_id then disagree "getId" "DDNGraph::getId" "differ";
        let full l = List.init (List.length l) nat_of_int in
        if int_of_nat (getIdP g (nat_of_int f) (full s) s (full a) a) <> i_idp then disagree "getIdP" "DDNGraph::getId" "differ"
      done;
      let i_probs = next_qs r in
      let i_pp = next_q r in
      let total = ref q_zero in
      List.iter2 (fun s1 got ->
          let e = o_prob sa aa s1 in
          if not (q_eq got e) then oracle_fail "ddn_product" "DDN::getTransitionProbability" ("probability " ^ string_of_q got ^ " is not the product of the local probabilities " ^ string_of_q e);
          total := q_add !total got) xsS i_probs;
      if not (q_eq !total q_one) then oracle_fail "ddn_sums_to_one" "DDN::getTransitionProbability" ("probabilities sum to " ^ string_of_q !total);
      List.iter2 (fun s1 got ->
          let m = getTransitionProbability g ts s a (List.map nat_of_int (Array.to_list s1)) in
          if not (q_eq got m) then disagree "getTransitionProbability" "DDN::getTransitionProbability" "differ") xsS i_probs;
      let s1 = List.nth xsS (((_q - 1) * 7 + 3) mod (List.length xsS)) in
      if not (q_eq i_pp (o_prob sa aa s1)) then oracle_fail "ddn_product" "DDN::getTransitionProbability(Partial)" "partial overload differs on a full assignment"
    done;
    let b = read_bf c in
    let i_tag = next_nats r in let i_atag = next_nats r in
    let rows = next_int r in let cols = next_int r in
    let i_vals = List.init rows (fun _ -> List.init cols (fun _ -> next_q r)) in
    let vA = Array.of_list (List.map Array.of_list i_vals) in
    (* O: the back-projection is the expected next-step value of the basis, at every full (s, a) *)
    let xsA = all_assignments sA in
    List.iter (fun s -> List.iter (fun a ->
        let expect = List.fold_left (fun acc s1 -> q_add acc (q_mul (o_prob s a s1) (o_bf_value spS b s1))) q_zero xsS in
        let ri = radix spS (il i_tag) s and ci = radix spA (il i_atag) a in
        if ri >= rows || ci >= cols then oracle_fail "backproject_is_expectation" "backProject" "matrix too small";
        if not (q_eq vA.(ri).(ci) expect) then
          oracle_fail "backproject_is_expectation" "backProject" ("entry " ^ string_of_q vA.(ri).(ci) ^ " expected " ^ string_of_q expect)) xsA) xsS;
    let m = backProject g ts b in
    if not (nats_eq m.bmTag i_tag && nats_eq m.bmActionTag i_atag) then disagree "backProject" "backProject" "tags differ";
    if not (List.length m.bmVals = rows && List.for_all2 qs_eq m.bmVals i_vals) then disagree "backProject" "backProject" "values differ";
    (nS > 1, "ddn")
  | "facout" ->
    let space = next_nats c in let fill = next_nat c in
    let ids = next_nats c in
    let sp = il space in
    let buf = ref (List.map (fun _ -> fill) space) in
    List.iter (fun id ->
        let i_buf = next_nats r in let i_back = next_int r in
        (* O: whatever the buffer held, it now holds the digits of id (and converts back to id) *)
        let d = Array.to_list (o_digits sp (int_of_nat id)) in
        if il i_buf <> d then oracle_fail "toFactors_out_overwrites" "toFactors" ("reused buffer holds " ^ str_nats i_buf ^ " for id " ^ string_of_int (int_of_nat id));
        if i_back <> int_of_nat id then oracle_fail "toIndex_toFactors" "toFactors" "round trip through the reused buffer failed";
        buf := toFactorsOut space id !buf;
        if not (nats_eq !buf i_buf) then disagree "toFactorsOut" "toFactors" "differ") ids;
    (List.length ids > 1, "facout")
  | "flatb" ->
    let sA = next_nats c in
    let groups = next_list c (fun c -> let tag = next_nats c in let means = next_qs c in (tag, means)) in
    let pulls = next_nats c in
    let i_A = next_int r in
    let sp = il sA in let spA = Array.of_list sp in
    if i_A <> List.fold_left ( * ) 1 sp then oracle_fail "flattened_model_eq_factored" "FlattenedModel::getA" "not the size of the joint action space";
    let helper = ref (List.map (fun _ -> nat_of_int 0) sA) in
    List.iter (fun a ->
        let got = next_q r in
        (* O: the flat arm a pays what the factored bandit pays for the joint action toFactors(A, a) *)
        let joint = o_digits sp (int_of_nat a) in
        let expect = List.fold_left (fun acc (tag, means) -> q_add acc (List.nth means (o_radix spA (il tag) joint))) q_zero groups in
        if not (q_eq got expect) then oracle_fail "flattened_model_eq_factored" "FlattenedModel::sampleR" ("arm " ^ string_of_int (int_of_nat a) ^ " pays " ^ string_of_q got ^ " expected " ^ string_of_q expect);
        let (m, h') = flattened_reward sA groups !helper a in
        helper := h';
        if not (q_eq got m) then disagree "flattened_sampleR" "FlattenedModel::sampleR" "differ";
        if not (q_eq m (fbandit_reward sA groups (toFactors sA a))) then disagree "flattened_model_eq_factored" "model" "model differs from its spec") pulls;
    (List.length pulls > 1, "flatb")
  | "fm" ->
    let op = next c in let sS = next_nats c in let sA = next_nats c in let fm = read_fm c in
    let spS = Array.of_list (il sS) and spA = Array.of_list (il sA) in
    let pairs = List.concat_map (fun s -> List.map (fun a -> (s, a)) (all_assignments sA)) (all_assignments sS) in
    let nb = List.length fm in
    let weighted w s a =
      let const = if List.length w = nb + 1 then List.nth w nb else q_zero in
      List.fold_left (fun acc (b, wi) -> q_add acc (q_mul wi (o_bm_value spS spA b s a))) const (List.combine fm (List.filteri (fun i _ -> i < nb) w)) in
    let nl x = List.map nat_of_int (Array.to_list x) in
    if op = "getw" then begin
      let w = next_qs c in
      let i_flat = next_qs r in
      List.iter2 (fun (s, a) got ->
          if not (q_eq got (weighted w s a)) then oracle_fail "weighted_flat_2d" "FactoredMatrix2D::getValue" "weighted value differs from the flat weighted sum";
          if not (q_eq got (getValueW2D sS sA fm (nl s) (nl a) w)) then disagree "getValueW2D" "FactoredMatrix2D::getValue" "differ") pairs i_flat;
      (nb > 1, "fm_getw")
    end else begin
      let (expect, clause, site, model) =
        (match op with
         | "plus" | "plusrv" ->
           let b = read_bm c in
           ((fun s a -> q_add (o_flat2 spS spA fm s a) (o_bm_value spS spA b s a)), "plus_flat_2d", "plusEqual2D", plusEqual2D sS sA fm b)
         | "plusfm" | "plusfmrv" ->
           let rr = read_fm c in
           ((fun s a -> q_add (o_flat2 spS spA fm s a) (o_flat2 spS spA rr s a)), "plus_flat_2d", "plusEqual2D", plusEqualFM sS sA fm rr)
         | "scale" ->
           let v = next_q c in
           ((fun s a -> q_mul v (o_flat2 spS spA fm s a)), "weighted_flat_2d", "FactoredMatrix2D::operator*=", scale2D fm v)
         | "scalew" | "scalewc" ->
           let w = next_qs c in
           (weighted w, "weighted_flat_2d", "FactoredMatrix2D::operator*=", scaleW2D fm w)
         | _ -> failwith ("unknown fm op " ^ op)) in
      let i_fm = read_fm r in
      let i_flat = next_qs r in
      List.iter2 (fun (s, a) got ->
          if not (q_eq got (expect s a)) then
            oracle_fail clause site ("at (" ^ str_ints (Array.to_list s) ^ " | " ^ str_ints (Array.to_list a) ^ ") value " ^ string_of_q got ^ " expected " ^ string_of_q (expect s a))) pairs i_flat;
      List.iter2 (fun (s, a) got -> if not (q_eq got (o_flat2 spS spA i_fm s a)) then oracle_fail "getValue2D_flat" "FactoredMatrix2D::getValue" "getValue differs from the sum of its bases") pairs i_flat;
      if not (fm_eq model i_fm) then disagree ("fm_" ^ op) site "model and implementation bases differ";
      List.iter2 (fun (s, a) got -> if not (q_eq got (getValue2D sS sA i_fm (nl s) (nl a))) then disagree "getValue2D" "FactoredMatrix2D::getValue" "differ") pairs i_flat;
      (nb > 0 && List.length pairs > 1, "fm_" ^ op)
    end
  | "jal" ->
    let nS = next_nat c in let sA = next_nats c in let id = next_nat c in
    let discount = next_q c in let alpha = next_q c in
    let hist = next_list c (fun c -> let s = next_nat c in let aa = next_nats c in let s1 = next_nat c in let rew = next_q c in (((s, aa), s1), rew)) in
    let i_joint = read_mat r in let i_flat = read_mat r in let i_single = read_mat r in
    (* O: the joint Q-function is the flat QLearning table on the flattened history *)
    if not (mat_eq i_joint i_flat) then oracle_fail "jal_eq_qlearning" "JointActionLearner::stepUpdateQ" "joint Q-function differs from flat QLearning on the same history";
    let st = List.fold_left jal_step (jal_new nS sA id discount alpha) hist in
    if not (mat_eq st.jalQ i_joint) then disagree "jal_step" "JointActionLearner::stepUpdateQ" "joint Q differs";
    let flatq = List.fold_left (fun q e -> ql_step alpha discount q (flat_exp sA e)) (qzero nS (factorSpace sA)) hist in
    if not (mat_eq flatq i_flat) then disagree "ql_step" "QLearning::stepUpdateQ" "flat Q differs";
    if not (mat_close st.jalSingle i_single) then disagree "jal_single" "JointActionLearner::stepUpdateQ" "single-agent Q differs";
    (List.length hist > 1, "jal")
  | "coop" ->
    let sS = next_nats c in let sA = next_nats c in
    let nS = List.length sS in
    let pss = List.init nS (fun _ -> let ag = next_nats c in let fs = next_list c next_nats in { psAgents = ag; psFeatures = fs }) in
    let g = List.fold_left (fun g ps -> match graph_push g ps with PushOk g' -> g' | _ -> failwith "generator: invalid parent set") (graph_new sS sA) pss in
    let domains = next_list c next_nats in
    let discount = next_q c in let alpha = next_q c in
    let hist = next_list c (fun c -> let s = next_nats c in let a = next_nats c in let s1 = next_nats c in let rew = next_qs c in (s, a, s1, rew)) in
    (* the bases built by makeQFunction *)
    let i_tags = next_list r (fun r -> let t = next_nats r in let at = next_nats r in (t, at)) in
    let m_tags = List.map (fun d -> let (at, t) = List.fold_left (bp_step g) ([], []) d in (t, at)) domains in
    if List.length i_tags <> List.length m_tags || not (List.for_all2 (fun (a, b) (c', d) -> nats_eq a c' && nats_eq b d) i_tags m_tags) then
      disagree "makeQFunction" "makeQFunction" "tags differ";
    let spS = Array.of_list (il sS) and spA = Array.of_list (il sA) in
    let fsz sp t = List.fold_left (fun a k -> a * sp.(k)) 1 (il t) in
    let fm0 = List.map (fun (t, at) -> { bmTag = t; bmActionTag = at; bmVals = qzero (nat_of_int (fsz spS t)) (nat_of_int (fsz spA at)) }) i_tags in
    let norm = coop_norm (nat_of_int (List.length sA)) fm0 in
    let single = (match i_tags with [(t, at)] -> List.length t = nS && List.length at = List.length sA | _ -> false) in
    let nA = fsz spA (List.init (List.length sA) nat_of_int) in
    let flat = ref (qzero (nat_of_int (fsz spS (List.init nS nat_of_int))) (nat_of_int nA)) in
    let fm = ref fm0 in
    List.iter (fun (s, a, s1, rew) ->
        let i_a1 = next_nats r in
        let i_vals = List.map (fun _ -> read_mat_checked r "coop_reward_split" "CooperativeQLearning::stepUpdateQ") i_tags in
        (* O (first step, Q-function still zero): each basis moves by alpha * sum over its agents of
           rew_a / (number of bases containing agent a), at the experienced entry only *)
        if !fm == fm0 then
          List.iter2 (fun (t, at) v ->
              let expect = q_mul alpha (List.fold_left (fun acc ag ->
                  let cnt = List.length (List.filter (fun (_, at') -> List.mem ag (il at')) i_tags) in
                  q_add acc (vio_qdiv (List.nth rew ag) (q_of_int cnt))) q_zero (il at)) in
              let ri = o_radix spS (il t) (Array.of_list (il s)) and ci = o_radix spA (il at) (Array.of_list (il a)) in
              List.iteri (fun r' rowv -> List.iteri (fun c' x ->
                  let e = if r' = ri && c' = ci then expect else q_zero in
                  if not (q_eq x e) then oracle_fail "coop_reward_split" "CooperativeQLearning::stepUpdateQ"
                      ("first update " ^ string_of_q x ^ " expected " ^ string_of_q e)) rowv) v) i_tags i_vals;
        (* O (single all-spanning factor): the returned action is greedy for the table before the update *)
        if single then begin
          let b = List.hd !fm in
          let row = List.nth b.bmVals (o_radix spS (il b.bmTag) (Array.of_list (il s1))) in
          let v = List.nth row (o_radix spA (il b.bmActionTag) (Array.of_list (il i_a1))) in
          if not (q_eq v (q_maxl row)) then oracle_fail "coop_single_eq_qlearning" "QGreedyPolicy::sampleAction" "the action used in the backup is not greedy"
        end;
        fm := coop_step sS sA norm alpha discount !fm s a s1 i_a1 rew;
        flat := ql_step alpha discount !flat (((toIndex sS s, toIndex sA a), toIndex sS s1), q_sum rew);
        if single && not (mat_eq (List.hd i_vals) !flat) then
          oracle_fail "coop_single_eq_qlearning" "CooperativeQLearning::stepUpdateQ" "single-factor Q-function differs from flat QLearning with the summed reward";
        if not (List.for_all2 (fun (b : bm) v -> mat_eq b.bmVals v) !fm i_vals) then disagree "coop_step" "CooperativeQLearning::stepUpdateQ" "Q-function differs") hist;
    let i_flat = read_mat r in
    if single && not (mat_eq !flat i_flat) then oracle_fail "coop_single_eq_qlearning" "QLearning::stepUpdateQ" "flat tables differ";
    if not (mat_eq !flat i_flat) then disagree "ql_step" "QLearning::stepUpdateQ" "flat Q differs";
    (List.length hist > 1, if single then "coop_single" else "coop_general")
  | "cmodel" ->
    let sS = next_nats c in let sA = next_nats c in
    let nS = List.length sS in
    let pss = List.init nS (fun _ -> let ag = next_nats c in let fs = next_list c next_nats in { psAgents = ag; psFeatures = fs }) in
    let g = List.fold_left (fun g ps -> match graph_push g ps with PushOk g' -> g' | _ -> failwith "generator: invalid parent set") (graph_new sS sA) pss in
    let ts = List.init nS (fun _ -> let rows = next_int c in let cols = next_int c in
                            List.init rows (fun _ -> List.init cols (fun _ -> next_q c))) in
    let rewards = read_fm c in
    let _discount = next_q c in
    let spS = Array.of_list (il sS) and spA = Array.of_list (il sA) in
    let fsize sp tag = List.fold_left (fun a k -> a * sp.(k)) 1 tag in
    let psA = Array.of_list pss in
    let tsA = Array.of_list (List.map (fun m -> Array.of_list (List.map Array.of_list m)) ts) in
    let o_prob s a s1 =
      let p = ref q_one in
      for f = 0 to nS - 1 do
        let ps = psA.(f) in
        let aid = o_radix spA (il ps.psAgents) a in
        let start = List.fold_left (fun acc t -> acc + fsize spS (il t)) 0 (List.filteri (fun i _ -> i < aid) ps.psFeatures) in
        let pid = o_radix spS (il (List.nth ps.psFeatures aid)) s in
        p := q_mul !p tsA.(f).(start + pid).(s1.(f))
      done; !p in
    (* O: the constructor accepts exactly the models whose every table row (all getSize(i) rows of
       every node) is a probability vector *)
    let verdict = next r in
    let row_ok n row = let row = List.filteri (fun i _ -> i < n) row in
      List.for_all (fun x -> q_le q_zero x) row && q_le (q_abs (q_sub (q_sum row) q_one)) (q_of_ints 1 1000000) in
    let all_ok = List.for_all2 (fun ps (i, m) ->
        let nrows = List.fold_left (fun acc t -> acc + fsize spS (il t)) 0 ps.psFeatures in
        List.length m = nrows && List.for_all (fun row -> List.length row = spS.(i) && row_ok spS.(i) row) m)
        pss (List.mapi (fun i m -> (i, m)) ts) in
    if (verdict = "ok") <> all_ok then oracle_fail "cmodel_validates_rows" "CooperativeModel::CooperativeModel" ("constructor answered " ^ verdict);
    if tables_are_probabilities g ts <> (verdict = "ok") then disagree "tables_are_probabilities" "CooperativeModel::CooperativeModel" "differ";
    if verdict <> "ok" then (true, "cmodel_rejected") else begin
    let nq = next_int c in
    for _q = 1 to nq do
      let s = next_nats c in let a = next_nats c in
      let sa = Array.of_list (il s) and aa = Array.of_list (il a) in
      let per_basis = List.map (fun b -> o_bm_value spS spA b sa aa) rewards in
      let flat = q_sum per_basis in
      let check_s1 site s1 p =
        if List.length s1 <> nS || List.exists2 (fun v sz -> int_of_nat v >= int_of_nat sz) s1 sS then
          oracle_fail "sampled_state_in_support" site "sampled next state out of range";
        let e = o_prob sa aa (Array.of_list (il s1)) in
        if not (q_eq p e) then oracle_fail "ddn_product" "CooperativeModel::getTransitionProbability" "probability is not the product of the local probabilities";
        if not (q_lt q_zero e) then oracle_fail "sampled_state_in_support" site "sampled next state has probability 0" in
      (* sampleSR *)
      let s1 = next_nats r in let rw = next_q r in let p = next_q r in
      check_s1 "CooperativeModel::sampleSR" s1 p;
      if not (q_eq rw flat) then oracle_fail "sampleSRs_rewards_flat" "CooperativeModel::sampleSR" ("reward " ^ string_of_q rw ^ " is not the flat reward " ^ string_of_q flat);
      (* sampleSRs (by value, then into dirty buffers) *)
      for variant = 1 to 2 do
        let s1b = next_nats r in let rews = next_qs r in
        let site = "CooperativeModel::sampleSRs" in
        if not (qs_eq rews per_basis) then
          oracle_fail "sampleSRs_rewards_flat" site ("per-basis rewards " ^ str_qs rews ^ " expected " ^ str_qs per_basis);
        if not (qs_eq rews (sampleSRs_rewards sS sA rewards s a)) then disagree "sampleSRs_rewards" site "differ";
        if variant = 1 then (let p = next_q r in check_s1 site s1b p)
        else begin
          let er = next_q r in
          if List.length s1b <> nS || List.exists2 (fun v sz -> int_of_nat v >= int_of_nat sz) s1b sS then
            oracle_fail "sampled_state_in_support" site "sampled next state out of range (dirty buffer)";
          if not (q_lt q_zero (o_prob sa aa (Array.of_list (il s1b)))) then oracle_fail "sampled_state_in_support" site "sampled next state has probability 0";
          if not (q_eq er flat) then oracle_fail "sampleSRs_rewards_flat" "CooperativeModel::getExpectedReward" "expected reward is not the flat reward";
          if not (q_eq er (expectedReward sS sA rewards s a)) then disagree "expectedReward" "CooperativeModel::getExpectedReward" "differ"
        end
      done;
      (* O: an accepted model's joint next-state distribution is the product form and sums to one *)
      let probs = next_qs r in
      let xs = all_assignments sS in
      List.iter2 (fun s1 p -> if not (q_eq p (o_prob sa aa s1)) then oracle_fail "ddn_product" "CooperativeModel::getTransitionProbability" "not the product of the local probabilities") xs probs;
      if not (q_eq (q_sum probs) q_one) then oracle_fail "ddn_sums_to_one" "CooperativeModel::getTransitionProbability" ("accepted model's probabilities sum to " ^ string_of_q (q_sum probs))
    done;
    (List.length rewards > 0 && nq > 0, "cmodel") end
  | "sparse" ->
    let sS = next_nats c in let sA = next_nats c in
    let rules0 = next_list c (fun c -> let sk = next_nats c in let sv = next_nats c in let ak = next_nats c in let av = next_nats c in
                               let v = next_q c in { rSK = sk; rSV = sv; rAK = ak; rAV = av; rVal = v }) in
    let discount = next_q c in let alpha = next_q c in
    let hist = next_list c (fun c -> let s = next_nats c in let a = next_nats c in let s1 = next_nats c in let rew = next_qs c in (s, a, s1, rew)) in
    let nS = List.length sS and nA = List.length sA in
    let spS = il sS and spA = il sA in
    let nflatA = List.fold_left ( * ) 1 spA and nflatS = List.fold_left ( * ) 1 spS in
    (* a "table" rule set: one rule per full (state, action) pair, full tags, listed in index order *)
    let full l n = nats_eq l (List.init n nat_of_int) in
    let table = List.length rules0 = nflatS * nflatA &&
                List.for_all (fun r -> full r.rSK nS && full r.rAK nA) rules0 &&
                List.mapi (fun i _ -> i) rules0 = List.map (fun r -> int_of_nat (toIndex sS r.rSV) * nflatA + int_of_nat (toIndex sA r.rAV)) rules0 in
    let rules = ref rules0 in
    let flat = ref (List.init nflatS (fun si -> List.init nflatA (fun ai -> (List.nth rules0 (if table then si * nflatA + ai else 0)).rVal))) in
    List.iter (fun (s, a, s1, rew) ->
        let i_a1 = next_nats r in
        let i_vals = List.map (fun v -> match v with Fin x -> x | _ -> oracle_fail "sparse_single_eq_qlearning" "SparseCooperativeQLearning::stepUpdateQ" "non-finite rule value")
            (next_list r next_x) in
        if table then begin
          let rowv = List.nth !flat (int_of_nat (toIndex sS s1)) in
          let v = List.nth rowv (int_of_nat (toIndex sA i_a1)) in
          if not (q_eq v (q_maxl rowv)) then oracle_fail "sparse_single_eq_qlearning" "QGreedyPolicy::sampleAction" "the action used in the backup is not greedy"
        end;
        (* O (round 6, theorem sparse_coop_update_spec): every rule matching (s,a) grows by the sum over its agents of
           td_share (spec, written independently of the model's folds); every other rule keeps its value *)
        let expected = List.map (fun ru ->
            if rule_matches ru s a
            then List.fold_left (fun acc ag -> q_add acc (td_share alpha discount !rules s a s1 i_a1 rew ag)) ru.rVal ru.rAK
            else ru.rVal) !rules in
        if not (qs_eq expected i_vals) then
          oracle_fail "sparse_coop_update_spec" "SparseCooperativeQLearning::stepUpdateQ"
            "a matching rule did not grow by the sum of its agents' TD shares, or a non-matching rule changed";
        rules := sparse_step (nat_of_int nA) alpha discount !rules s a s1 i_a1 rew;
        flat := ql_step alpha discount !flat (((toIndex sS s, toIndex sA a), toIndex sS s1), q_sum rew);
        if table && not (qs_eq i_vals (List.concat !flat)) then
          oracle_fail "sparse_single_eq_qlearning" "SparseCooperativeQLearning::stepUpdateQ" "table-shaped rule set differs from flat QLearning with the summed reward";
        if not (qs_eq (List.map (fun r -> r.rVal) !rules) i_vals) then disagree "sparse_step" "SparseCooperativeQLearning::stepUpdateQ" "rule values differ") hist;
    let i_flat = read_mat r in
    if table && not (mat_eq !flat i_flat) then disagree "ql_step" "QLearning::stepUpdateQ" "flat Q differs";
    (List.length hist > 1, if table then "sparse_table" else "sparse_rules")
  | "subop2d" ->
    let sS = next_nats c in let sA = next_nats c in let l = read_bm c in let rr = read_bm c in
    let i_fm = read_fm r in
    let spS = Array.of_list (il sS) and spA = Array.of_list (il sA) in
    let pairs = List.concat_map (fun s -> List.map (fun a -> (s, a)) (all_assignments sA)) (all_assignments sS) in
    let m = plusEqualSubset2D sS sA l rr in
    List.iter (fun (b : bm) ->
        List.iter (fun (s, a) ->
            let expect = q_add (o_bm_value spS spA l s a) (o_bm_value spS spA rr s a) in
            if not (q_eq (o_bm_value spS spA b s a) expect) then
              oracle_fail "plus_flat_2d" "plusEqualSubset2D" ("at (" ^ str_ints (Array.to_list s) ^ " | " ^ str_ints (Array.to_list a) ^ ") value differs from the pointwise sum")) pairs;
        if not (bm_eq m b) then disagree "plusEqualSubset2D" "plusEqualSubset2D" "differ") i_fm;
    (List.length l.bmActionTag > List.length rr.bmActionTag || List.length l.bmTag > List.length rr.bmTag, "subop2d")
  | k -> failwith ("unknown case kind " ^ k)

let () = main_loop judge
