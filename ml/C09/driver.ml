(* ml/C09/driver.ml — judge for property C09.  For every case: first the oracle (O): the Coq-extracted
   checkers is_dist / closeb / mass_on_max / in_support applied to what the implementation
   printed; then the correspondence (C): the extracted models against the same outputs. *)
open Model
open Vio

(* indices printed by the implementation are small; anything else (e.g. garbage read past a buffer)
   is reported as a failing input instead of being converted to a unary Coq nat *)
let next_nat (c : cursor) : nat =
  let t = next c in
  match int_of_string_opt t with
  | Some n when n >= 0 && n <= 100000 -> nat_of_int n
  | _ -> oracle_fail "sample_in_range" "sampleAction" ("index out of range: " ^ t)
let next_nats c = next_list c next_nat

let tol = q_of_ints 1 1000000000          (* 1e-9: slack for sums of rounded doubles *)
let ioN = int_of_nat
let nat_list_eq a b = List.map ioN a = List.map ioN b
let rec take n l = if n <= 0 then [] else match l with [] -> [] | x :: t -> x :: take (n - 1) t
let nth_nat l n = List.nth l n

(* ---------- oracle helpers (all on implementation outputs) ---------- *)
let o_dist clause site exact (p : q list) (len : int) =
  if List.length p <> len then oracle_fail clause site ("table has length " ^ string_of_int (List.length p));
  let ok = if exact then is_distb p else is_dist_tolb tol p in
  if not ok then oracle_fail clause site ("not a probability vector: " ^ str_qs p)

let o_agree clause site (table : q list) (probs : q list) =
  if not (closeb tol table probs) then
    oracle_fail clause site ("getPolicy " ^ str_qs table ^ " vs getActionProbability " ^ str_qs probs)

let o_support clause site (p : q list) (a : nat) =
  if not (in_supportb p a) then
    oracle_fail clause site ("sampled action " ^ string_of_int (ioN a) ^ " has probability zero / is out of range in " ^ str_qs p)

(* ---------- correspondence helpers ---------- *)
let c_vec exact clause site (impl : q list) (model : q list) =
  let ok = List.length impl = List.length model &&
           List.for_all2 (fun a b -> if exact then q_eq a b else q_close a b) impl model in
  if not ok then disagree clause site ("impl " ^ str_qs impl ^ " model " ^ str_qs model)

let c_nat clause site (impl : nat) (model : nat) =
  if ioN impl <> ioN model then
    disagree clause site ("impl " ^ string_of_int (ioN impl) ^ " model " ^ string_of_int (ioN model))

let range n = List.init n (fun i -> nat_of_int i)

(* greedy sample: candidates.(count-1) is the draw the implementation saw for a tie set of that size *)
let greedy_model_sample (q : q list) (cands : nat list) : nat =
  let ties = greedy_tieset q in
  let k = List.length ties in
  if k = 0 || k > List.length cands then failwith "greedy_model_sample: no candidates";
  greedy_sample q (List.nth cands (k - 1))

let require_sep (q : q list) =
  if not (separatedb q) then failwith "generator bug: Q-values not separated"

(* one greedy policy object: table, queries, oracle + correspondence *)
let judge_greedy_row exact site (q : q list) (pol : q list) (probs : q list) =
  let a = List.length q in
  o_dist "greedy_rows_dist" (site ^ "::getPolicy") exact pol a;
  o_dist "greedy_rows_dist" (site ^ "::getActionProbability") exact probs a;
  o_agree "greedy_table_eq_query" site pol probs;
  if not (mass_on_maxb q_zero q pol) then
    oracle_fail "greedy_argmax" (site ^ "::getPolicy") ("mass on a non-maximal action: q " ^ str_qs q ^ " p " ^ str_qs pol);
  if not (mass_on_maxb q_zero q probs) then
    oracle_fail "greedy_argmax" (site ^ "::getActionProbability") ("mass on a non-maximal action: q " ^ str_qs q ^ " p " ^ str_qs probs)

let corr_greedy_row exact site (q : q list) (pol : q list) (probs : q list) =
  c_vec exact "greedy_policy" (site ^ "::getPolicy") pol (greedy_policy q);
  c_vec exact "greedy_prob" (site ^ "::getActionProbability") probs (List.map (fun a -> greedy_prob q a) (range (List.length q)))


(* std::exp for the softmax model: OCaml's libm exp on the nearest double of the argument *)
let ex_float (x : q) : q =
  let f = exp (float_of_q x) in
  if Float.is_nan f || Float.abs f = Float.infinity then failwith "ex_float: non-finite" else q_of_float f

(* list of doubles that may contain nan/inf: oracle failure instead of a parse error *)
let next_qs_checked clause site (r : cursor) : q list =
  next_list r (fun r -> match next_x r with
      | Fin x -> x
      | _ -> oracle_fail clause site "non-finite probability (nan/inf)")

let judge_softmax_row site t (q : q list) (pol : q list) (probs : q list) =
  let a = List.length q in
  o_dist "softmax_dist" (site ^ "::getPolicy") false pol a;
  o_dist "softmax_dist" (site ^ "::getActionProbability") false probs a;
  o_agree "softmax_table_eq_query" site pol probs

let corr_softmax_row site t (q : q list) (pol : q list) (probs : q list) =
  c_vec false "softmax_policy" (site ^ "::getPolicy") pol (softmax_policy ex_float t q);
  c_vec false "softmax_prob" (site ^ "::getActionProbability") probs
    (List.map (fun a -> softmax_prob ex_float t q a) (range (List.length q)))

let all_ge2 (counts : nat list) = List.for_all (fun n -> ioN n >= 2) counts

(* one ThompsonSamplingPolicy::sampleAction call: oracle then correspondence *)
let judge_thompson_call (counts : nat list) (vals : q list) (act : nat) =
  let site = "ThompsonSamplingPolicy::sampleAction" in
  let a = List.length counts in
  if ioN act >= a then oracle_fail "thompson_argmax" site "action out of range";
  if all_ge2 counts then begin
    if not (q_eq (List.nth vals (ioN act)) (maxl vals)) then
      oracle_fail "thompson_argmax" site ("chose arm " ^ string_of_int (ioN act) ^ " but the posterior samples are " ^ str_qs vals)
  end else begin
    let rec first i = function [] -> -1 | n :: t -> if ioN n < 2 then i else first (i + 1) t in
    if ioN act <> first 0 counts then oracle_fail "thompson_unexplored_first" site "did not return the first under-explored arm"
  end;
  c_nat "thompson_sample" site act (thompson_sample (List.combine counts vals))

let rec chunks n l = if l = [] then [] else take n l :: chunks n (List.filteri (fun i _ -> i >= n) l)

let judge _id (c : cursor) (r : cursor) : bool * string =
  let kind = next c in
  match kind with
  | "gr" ->
    let exact = (next c = "x") in
    let q = next_qs c in let sh = next_q c in let _seed = next_int c in let nsamp = next_int c in
    let qs = shift sh q in
    require_sep q; require_sep qs;
    let pol = next_qs r in let probs = next_qs r in let pols = next_qs r in let probss = next_qs r in
    let ns = next_int r in
    if ns <> nsamp then failwith "sample count";
    let samp = List.init nsamp (fun _ -> let cands = next_nats r in let a = next_nat r in (cands, a)) in
    let samps = List.init nsamp (fun _ -> let cands = next_nats r in let a = next_nat r in (cands, a)) in
    let site = "QGreedyPolicyWrapper" in
    (* O *)
    judge_greedy_row exact site q pol probs;
    judge_greedy_row exact site qs pols probss;
    if not (closeb tol pol pols) then oracle_fail "greedy_shift" (site ^ "::getPolicy") ("policy changed under shift: " ^ str_qs pol ^ " vs " ^ str_qs pols);
    if not (closeb tol probs probss) then oracle_fail "greedy_shift" (site ^ "::getActionProbability") "probabilities changed under shift";
    List.iter (fun (_, a) -> o_support "greedy_sample_in_support" (site ^ "::sampleAction") pol a) samp;
    List.iter (fun (_, a) -> o_support "greedy_sample_in_support" (site ^ "::sampleAction") pols a) samps;
    (* C *)
    corr_greedy_row exact site q pol probs;
    corr_greedy_row exact site qs pols probss;
    List.iter (fun (cands, a) -> c_nat "greedy_sample" (site ^ "::sampleAction") a (greedy_model_sample q cands)) samp;
    List.iter (fun (cands, a) -> c_nat "greedy_sample" (site ^ "::sampleAction") a (greedy_model_sample qs cands)) samps;
    let ties = List.length (greedy_tieset q) in
    (ties > 1 || ioN (List.hd (greedy_tieset q)) > 0, if ties > 1 then "gr-ties" else "gr")
  | "epg" ->
    let exact = (next c = "x") in
    let q = next_qs c in let eps = next_q c in let _seed = next_int c in let nsamp = next_int c in
    require_sep q;
    let a = List.length q in
    let pol = next_qs r in let probs = next_qs r in
    let ns = next_int r in
    if ns <> nsamp then failwith "sample count";
    let samp = List.init nsamp (fun _ ->
        let u = next_q r in let rr = next_nat r in let cands = next_nats r in let act = next_nat r in (u, rr, cands, act)) in
    let site = "EpsilonPolicyInterface" in
    o_dist "epsilon_mixture" (site ^ "::getPolicy") exact pol a;
    o_dist "epsilon_mixture" (site ^ "::getActionProbability") exact probs a;
    o_agree "epsilon_mixture" site pol probs;
    List.iter (fun (u, _, _, act) ->
        if q_lt q_zero eps || q_lt q_zero u then o_support "epsilon_sample_in_support" (site ^ "::sampleAction") pol act) samp;
    let g = greedy_policy q in
    c_vec exact "eps_policy" (site ^ "::getPolicy") pol (eps_policy eps g);
    c_vec exact "eps_prob" (site ^ "::getActionProbability") probs (List.map (fun p -> eps_prob eps (nat_of_int a) p) g);
    List.iter (fun (u, rr, cands, act) ->
        c_nat "eps_sample" (site ^ "::sampleAction") act (eps_sample eps u rr (greedy_model_sample q cands))) samp;
    (q_lt q_zero eps && q_lt eps q_one, "epg")
  | "mgr" ->
    let exact = (next c = "x") in
    let s = next_int c in let a = next_int c in
    let rows = List.init s (fun _ -> List.init a (fun _ -> next_q c)) in
    let eps = next_q c in let _seed = next_int c in
    List.iter require_sep rows;
    let t1 = chunks a (next_qs r) in let t2 = chunks a (next_qs r) in
    let t3 = chunks a (next_qs r) in let t4 = chunks a (next_qs r) in
    if List.length t1 <> s || List.length t2 <> s || List.length t3 <> s || List.length t4 <> s then
      oracle_fail "greedy_rows_dist" "MDP::QGreedyPolicy::getPolicy" "wrong number of rows";
    let gs = List.init s (fun _ -> let cands = next_nats r in let act = next_nat r in (cands, act)) in
    let es = List.init s (fun _ ->
        let u = next_q r in let rr = next_nat r in let cands = next_nats r in let act = next_nat r in (u, rr, cands, act)) in
    let site = "MDP::QGreedyPolicy" and esite = "MDP::EpsilonPolicy" in
    List.iteri (fun i q ->
        judge_greedy_row exact site q (List.nth t1 i) (List.nth t2 i);
        o_dist "epsilon_mixture" (esite ^ "::getPolicy") exact (List.nth t3 i) a;
        o_dist "epsilon_mixture" (esite ^ "::getActionProbability") exact (List.nth t4 i) a;
        o_agree "epsilon_mixture" esite (List.nth t3 i) (List.nth t4 i);
        o_support "greedy_sample_in_support" (site ^ "::sampleAction") (List.nth t1 i) (snd (List.nth gs i));
        (let (u, _, _, act) = List.nth es i in
         if q_lt q_zero eps || q_lt q_zero u then o_support "epsilon_sample_in_support" (esite ^ "::sampleAction") (List.nth t3 i) act)) rows;
    List.iteri (fun i q ->
        corr_greedy_row exact site q (List.nth t1 i) (List.nth t2 i);
        let g = greedy_policy q in
        c_vec exact "eps_policy" (esite ^ "::getPolicy") (List.nth t3 i) (eps_policy eps g);
        c_vec exact "eps_prob" (esite ^ "::getActionProbability") (List.nth t4 i) (List.map (fun p -> eps_prob eps (nat_of_int a) p) g);
        (let (cands, act) = List.nth gs i in c_nat "greedy_sample" (site ^ "::sampleAction") act (greedy_model_sample q cands));
        (let (u, rr, cands, act) = List.nth es i in
         c_nat "eps_sample" (esite ^ "::sampleAction") act (eps_sample eps u rr (greedy_model_sample q cands)))) rows;
    (s > 1, "mgr")
  | "lrp" ->
    let exact = (next c = "x") in
    let an = next_nat c in let a = ioN an in
    let pa = next_q c in let pb = next_q c in let eps = next_q c in
    let nops = next_int c in
    let ops = List.init nops (fun _ -> let act = next_nat c in let res = next_int c <> 0 in (act, res)) in
    let _seed = next_int c in let nsamp = next_int c in
    let tables = List.init (nops + 1) (fun _ -> let p = next_qs r in let pr = next_qs r in (p, pr)) in
    let epol = next_qs r in let eprobs = next_qs r in
    let samp = List.init nsamp (fun _ -> let u = next_q r in let act = next_nat r in (u, act)) in
    let esamp = List.init nsamp (fun _ ->
        let u = next_q r in let rr = next_nat r in let ul = next_q r in let act = next_nat r in (u, rr, ul, act)) in
    let site = "LRPPolicy" and esite = "EpsilonPolicyInterface" in
    (* O: every prefix of the history leaves a probability vector; table = queries *)
    List.iter (fun (p, pr) ->
        o_dist "lrp_simplex_invariant" (site ^ "::stepUpdateP") exact p a;
        o_agree "lrp_table_eq_query" site p pr) tables;
    let (final, _) = List.nth tables nops in
    o_dist "epsilon_mixture" (esite ^ "::getPolicy") exact epol a;
    o_agree "epsilon_mixture" esite epol eprobs;
    List.iter (fun (_, act) -> o_support "sample_prob_in_support" (site ^ "::sampleAction") final act) samp;
    List.iter (fun (u, _, _, act) ->
        if q_lt q_zero eps || q_lt q_zero u then o_support "epsilon_sample_in_support" (esite ^ "::sampleAction") epol act) esamp;
    (* C *)
    let st = ref (lrp_init an pa pb) in
    List.iteri (fun i (p, _) ->
        if i > 0 then st := lrp_step !st (List.nth ops (i - 1));
        c_vec exact "lrp_step" (site ^ "::stepUpdateP") p (lrp_pol !st)) tables;
    let mfinal = lrp_pol !st in
    c_vec exact "eps_policy" (esite ^ "::getPolicy") epol (eps_policy eps mfinal);
    c_vec exact "eps_prob" (esite ^ "::getActionProbability") eprobs (List.map (fun p -> eps_prob eps an p) mfinal);
    (* sampling is decided on the implementation's own (double) table, so that rounding of the
       table cannot flip a comparison *)
    List.iter (fun (u, act) -> c_nat "sample_prob" (site ^ "::sampleAction") act (sample_prob final u)) samp;
    List.iter (fun (u, rr, ul, act) ->
        c_nat "eps_sample" (esite ^ "::sampleAction") act (eps_sample eps u rr (sample_prob final ul))) esamp;
    (nops > 0, if nops > 3 then "lrp-long" else "lrp")
  | "smx" | "smu" ->
    let _flag = next c in
    let t = next_q c in let q = next_qs c in let sh = next_q c in let _seed = next_int c in let nsamp = next_int c in
    let qs = shift sh q in
    let greedy = q_le (q_abs t) (q_of_ints 1 1000000) in
    if greedy then (require_sep q; require_sep qs);
    let site = "QSoftmaxPolicyWrapper" in
    let rd () = next_qs_checked "softmax_dist" site r in
    let pol = rd () in let probs = rd () in let pols = rd () in let probss = rd () in
    let m0 = rd () in let m0p = rd () in let m1 = rd () in let m1p = rd () in
    let ns = next_int r in
    if ns <> nsamp then failwith "sample count";
    let rd_s () = List.init nsamp (fun _ -> let cands = next_nats r in let u = next_q r in let act = next_nat r in (cands, u, act)) in
    let samp = rd_s () in let msamp = rd_s () in
    (* O *)
    judge_softmax_row site t q pol probs;
    judge_softmax_row site t qs pols probss;
    judge_softmax_row site t q m0 m0p;
    judge_softmax_row site t qs m1 m1p;
    if not (closeb tol pol pols) then oracle_fail "softmax_shift" site ("policy changed under shift: " ^ str_qs pol ^ " vs " ^ str_qs pols);
    if not (closeb tol m0 m1) then oracle_fail "softmax_shift" site "MDP policy rows differ under shift";
    List.iter (fun (_, _, act) -> o_support "softmax_sample_in_support" (site ^ "::sampleAction") pol act) samp;
    List.iteri (fun k (_, _, act) -> o_support "softmax_sample_in_support" (site ^ "::sampleAction") (if k mod 2 = 0 then m0 else m1) act) msamp;
    (* C *)
    corr_softmax_row site t q pol probs;
    corr_softmax_row site t qs pols probss;
    corr_softmax_row site t q m0 m0p;
    corr_softmax_row site t qs m1 m1p;
    (* sampling decided on the implementation's own table (see lrp) *)
    let model_sample qq table (cands, u, _) =
      if greedy then greedy_model_sample qq cands else sample_prob table u in
    List.iter (fun ((_, _, act) as s) -> c_nat "softmax_sample" (site ^ "::sampleAction") act (model_sample q pol s)) samp;
    List.iteri (fun k ((_, _, act) as s) ->
        c_nat "softmax_sample" (site ^ "::sampleAction") act
          (if k mod 2 = 0 then model_sample q m0 s else model_sample qs m1 s)) msamp;
    (not greedy, if greedy then "smx-T0" else kind)
  | "ts" | "tsn" ->
    let _a = next_int c in
    let counts = next_nats r in
    let ns = next_int r in
    let samp = List.init ns (fun _ -> let vals = next_qs r in let act = next_nat r in (vals, act)) in
    List.iter (fun (vals, act) -> judge_thompson_call counts vals act) samp;
    (all_ge2 counts, kind)
  | "tt" | "ttn" ->
    let _a = next_int c in
    let counts = next_nats r in
    let ns = next_int r in
    let site = "TopTwoThompsonSamplingPolicy::sampleAction" in
    let nt = ref false in
    for _k = 1 to ns do
      let ncalls = next_int r in
      let calls = List.init ncalls (fun _ -> let vals = next_qs r in let act = next_nat r in (vals, act)) in
      let pick = next_int r in let hang = next_int r <> 0 in let final = next_nat r in
      List.iter (fun (vals, act) -> judge_thompson_call counts vals act) calls;
      (* a loop that has not ended within 300 draws (one arm dominates) is not a violation: the real
         call was skipped by the harness and there is nothing to compare *)
      if (not hang) && ioN final >= List.length counts then oracle_fail "toptwo_in_range" site "action out of range";
      (match calls with
       | [] -> failwith "tt: no inner call"
       | _ when hang -> ()
       | (_, first) :: rest ->
         (match toptwo_sample counts first (pick = 1) (List.map snd rest) with
          | None -> disagree "toptwo_sample" site "model: loop not finished within the observed stream"
          | Some m -> c_nat "toptwo_sample" site final m);
         if rest <> [] then nt := true)
    done;
    (!nt, kind)
  | "wolf" ->
    let s = next_int c in let a = next_int c in
    let rows = List.init s (fun _ -> List.init a (fun _ -> next_q c)) in
    List.iter require_sep rows;
    let dw = next_q c in let dl = next_q c in let sc = next_q c in
    let nops = next_int c in
    let ops = List.init nops (fun _ -> next_int c) in
    let _seed = next_int c in
    let site = "WoLFPolicy" in
    let rd_tables () = let t = chunks a (next_qs_checked "wolf_rows_dist" (site ^ "::stepUpdateP") r) in
      let pr = chunks a (next_qs_checked "wolf_rows_dist" (site ^ "::getActionProbability") r) in (t, pr) in
    let t0 = rd_tables () in
    let steps = List.map (fun st -> let cands = next_nats r in let tb = rd_tables () in (st, cands, tb)) ops in
    let samp = List.init s (fun _ -> let u = next_q r in let act = next_nat r in (u, act)) in
    (* O: every dumped table: rows are probability vectors, table = queries *)
    let o_tables (t, pr) =
      if List.length t <> s then oracle_fail "wolf_rows_dist" (site ^ "::getPolicy") "wrong number of rows";
      List.iter2 (fun row prow ->
          o_dist "wolf_rows_dist" (site ^ "::stepUpdateP") false row a;
          o_agree "wolf_table_eq_query" site row prow) t pr in
    o_tables t0;
    List.iter (fun (_, _, tb) -> o_tables tb) steps;
    let (tfinal, _) = (match List.rev steps with [] -> t0 | (_, _, tb) :: _ -> tb) in
    List.iteri (fun i (_, act) -> o_support "sample_prob_in_support" (site ^ "::sampleAction") (List.nth tfinal i) act) samp;
    (* C: the model follows the history while every deltaW/deltaL decision has a clear margin *)
    let st = Array.make s (wolf_init (nat_of_int a)) in
    let cnt = Array.make s 0 in
    let cmp (t, _) = List.iteri (fun i row -> c_vec false "wolf_step" (site ^ "::stepUpdateP") row (w_act st.(i))) t in
    cmp t0;
    let ill = ref false in
    List.iter (fun (sidx, cands, tb) ->
        if not !ill then begin
          let q = List.nth rows sidx in
          let margin = wolf_margin q st.(sidx) in
          (* deltaW/deltaL decision on (near-)equal values: the double comparison may go either
             way, except on the first update of a row with A a power of two (both sides are then
             computed from bit-identical rows) *)
          let first_exact = q_eq margin q_zero && cnt.(sidx) = 0 && (a land (a - 1)) = 0 in
          if (not (q_eq dw dl)) && q_lt (q_abs margin) (q_of_ints 1 10000000) && not first_exact then ill := true;
          if not !ill then begin
            let ties = List.length (greedy_tieset q) in
            let sel = List.nth cands (ties - 1) in
            st.(sidx) <- wolf_step_row dw dl sc q st.(sidx) sel;
            cnt.(sidx) <- cnt.(sidx) + 1;
            cmp tb
          end
        end) steps;
    if not !ill then
      List.iteri (fun i (u, act) -> c_nat "sample_prob" (site ^ "::sampleAction") act (sample_prob (List.nth tfinal i) u)) samp;
    (nops > 0 && not !ill, if !ill then "wolf-illcond" else "wolf")
  | "mpol" ->
    let s = next_int c in let a = next_int c in
    let rows = List.init s (fun _ -> List.init a (fun _ -> next_q c)) in
    let _seed = next_int c in
    let site = "MDP::Policy" in
    let t = chunks a (next_qs r) in let pr = chunks a (next_qs r) in
    let samp = List.init s (fun _ -> let u = next_q r in let act = next_nat r in (u, act)) in
    List.iter2 (fun row prow -> o_dist "policy_rows_dist" (site ^ "::getPolicy") true row a; o_agree "policy_table_eq_query" site row prow) t pr;
    List.iteri (fun i (_, act) -> o_support "sample_prob_in_support" (site ^ "::sampleAction") (List.nth t i) act) samp;
    List.iter2 (fun row m -> c_vec true "policy_matrix" (site ^ "::getPolicy") row m) t rows;
    List.iteri (fun i (u, act) -> c_nat "sample_prob" (site ^ "::sampleAction") act (sample_prob (List.nth rows i) u)) samp;
    (s > 1, "mpol")
  | "pga" ->
    let s = next_int c in let a = next_int c in
    let rows = List.init s (fun _ -> List.init a (fun _ -> next_q c)) in
    let lr = next_q c in let pl = next_q c in
    let nops = next_int c in
    let ops = List.init nops (fun _ -> next_int c) in
    let _seed = next_int c in
    let site = "PGAAPPPolicy" in
    let rd_tables () = let t = chunks a (next_qs_checked "pgaapp_rows_dist" (site ^ "::stepUpdateP") r) in
      let pr = chunks a (next_qs_checked "pgaapp_rows_dist" (site ^ "::getActionProbability") r) in (t, pr) in
    let t0 = rd_tables () in
    let steps = List.map (fun st -> let tb = rd_tables () in (st, tb)) ops in
    let samp = List.init s (fun _ -> let u = next_q r in let act = next_nat r in (u, act)) in
    (* O: what isProbability checks (entries >= 0, sum within 1e-6 of one), table = queries *)
    let tol6 = q_of_ints 1001 1000000000 in
    let o_tables (t, pr) =
      if List.length t <> s then oracle_fail "pgaapp_rows_dist" (site ^ "::getPolicy") "wrong number of rows";
      List.iter2 (fun row prow ->
          if List.length row <> a || not (is_dist_tolb tol6 row) then
            oracle_fail "pgaapp_rows_dist" (site ^ "::stepUpdateP") ("row is not a probability vector: " ^ str_qs row);
          o_agree "pgaapp_table_eq_query" site row prow) t pr in
    o_tables t0;
    List.iter (fun (_, tb) -> o_tables tb) steps;
    let (tfinal, _) = (match List.rev steps with [] -> t0 | (_, tb) :: _ -> tb) in
    List.iteri (fun i (_, act) -> o_support "sample_prob_in_support" (site ^ "::sampleAction") (List.nth tfinal i) act) samp;
    (* C: one-step simulation — the model's update applied to the implementation's previous row *)
    let e6 = q_of_ints 1 1000000 and e8 = q_of_ints 1 100000000 and e12 = q_of_ints 1 1000000000000 in
    let near x y = q_lt (q_abs (q_sub x y)) e8 in
    let ill = ref 0 and boundary = ref 0 in
    let prev = ref (fst t0) in
    List.iter (fun (sidx, (t, _)) ->
        let q = List.nth rows sidx in
        let p = List.nth !prev sidx in
        let g = pga_grad_row lr pl q p in
        let ps = possum g in
        let bad = near (q_abs (q_sub ps q_one)) e6 || near ps e6
                  || List.exists (fun pa -> near (q_abs (q_sub pa q_one)) e6) p
                  || List.exists (fun x -> q_lt (q_abs x) e12 && not (q_eq x q_zero)) g in
        if List.exists (fun x -> q_lt x q_zero) g then incr boundary;
        if bad then incr ill
        else c_vec false "pga_step" (site ^ "::stepUpdateP") (List.nth t sidx) (List.map vio_qred (project g));   (* = pga_step_row lr pl q p *)
        List.iteri (fun i row -> if i <> sidx then c_vec true "pga_other_rows" (site ^ "::stepUpdateP") (List.nth t i) row) !prev;
        prev := t) steps;
    List.iteri (fun i (u, act) -> c_nat "sample_prob" (site ^ "::sampleAction") act (sample_prob (List.nth tfinal i) u)) samp;
    (nops > 0, if !boundary > 0 then "pga-boundary" else "pga")
  | "esrl" | "sr" | "rnd" ->
    let a = next_int c in
    let site = (match kind with "esrl" -> "ESRLPolicy" | "sr" -> "SuccessiveRejectsPolicy" | _ -> "RandomPolicy") in
    let clause x = kind ^ "_" ^ x in
    let n = ref 0 and phases = ref [] in
    while not (at_end r) do
      let pol = next_qs_checked (clause "rows_dist") (site ^ "::getPolicy") r in
      let probs = next_qs_checked (clause "rows_dist") (site ^ "::getActionProbability") r in
      let act = next_nat r in
      if !n > 0 && kind <> "rnd" then phases := next r :: !phases;
      o_dist (clause "rows_dist") (site ^ "::getPolicy") false pol a;
      o_agree (clause "table_eq_query") site pol probs;
      o_support (clause "sample_in_support") (site ^ "::sampleAction") pol act;
      if kind = "rnd" then c_vec false "random_policy" (site ^ "::getPolicy") pol (List.init a (fun _ -> vio_qdiv q_one (q_of_int a)));
      incr n
    done;
    (List.length (List.sort_uniq compare !phases) > 1 || kind = "rnd", kind)
  | k -> failwith ("unknown case kind " ^ k)

let () = main_loop judge
