(* ml/C09/driver.ml — judge for property C09.  For every case: first the oracle (O): the Coq-extracted
   checkers is_dist / closeb / mass_on_max / in_support applied to what the implementation
   printed; then the correspondence (C): the extracted models against the same outputs. *)
open Model
open Vio

(* indices printed by the implementation are small; anything else (e.g. garbage read past a buffer)
   is reported as a failing input instead of being converted to a unary Coq nat *)
let next_nat (c : cursor) : nat =
  let t = next c in
  match int_of_string_opt t with
  | Some n when n >= 0 && n <= 100000 -> nat_of_int n
  | _ -> oracle_fail "sample_in_range" "sampleAction" ("index out of range: " ^ t)
let next_nats c = next_list c next_nat

let tol = q_of_ints 1 1000000000          (* 1e-9: slack for sums of rounded doubles *)
let ioN = int_of_nat
let nat_list_eq a b = List.map ioN a = List.map ioN b
let rec take n l = if n <= 0 then [] else match l with [] -> [] | x :: t -> x :: take (n - 1) t
let nth_nat l n = List.nth l n

(* ---------- oracle helpers (all on implementation outputs) ---------- *)
let o_dist clause site exact (p : q list) (len : int) =
  if List.length p <> len then oracle_fail clause site ("table has length " ^ string_of_int (List.length p));
  let ok = if exact then is_distb p else is_dist_tolb tol p in
  if not ok then oracle_fail clause site ("not a probability vector: " ^ str_qs p)

let o_agree clause site (table : q list) (probs : q list) =
  if not (closeb tol table probs) then
    oracle_fail clause site ("getPolicy " ^ str_qs table ^ " vs getActionProbability " ^ str_qs probs)

let o_support clause site (p : q list) (a : nat) =
  if not (in_supportb p a) then
    oracle_fail clause site ("sampled action " ^ string_of_int (ioN a) ^ " has probability zero / is out of range in " ^ str_qs p)

(* ---------- correspondence helpers ---------- *)
let c_vec exact clause site (impl : q list) (model : q list) =
  let ok = List.length impl = List.length model &&
           List.for_all2 (fun a b -> if exact then q_eq a b else q_close a b) impl model in
  if not ok then disagree clause site ("impl " ^ str_qs impl ^ " model " ^ str_qs model)

let c_nat clause site (impl : nat) (model : nat) =
  if ioN impl <> ioN model then
    disagree clause site ("impl " ^ string_of_int (ioN impl) ^ " model " ^ string_of_int (ioN model))

let range n = List.init n (fun i -> nat_of_int i)

(* greedy sample: candidates.(count-1) is the draw the implementation saw for a tie set of that size *)
let greedy_model_sample (q : q list) (cands : nat list) : nat =
  let ties = greedy_tieset q in
  let k = List.length ties in
  if k = 0 || k > List.length cands then failwith "greedy_model_sample: no candidates";
  greedy_sample q (List.nth cands (k - 1))

let require_sep (q : q list) =
  if not (separatedb q) then failwith "generator bug: Q-values not separated"

(* one greedy policy object: table, queries, oracle + correspondence *)
let judge_greedy_row exact site (q : q list) (pol : q list) (probs : q list) =
  let a = List.length q in
  o_dist "greedy_rows_dist" (site ^ "::getPolicy") exact pol a;
  o_dist "greedy_rows_dist" (site ^ "::getActionProbability") exact probs a;
  o_agree "greedy_table_eq_query" site pol probs;
  if not (mass_on_maxb q_zero q pol) then
    oracle_fail "greedy_argmax" (site ^ "::getPolicy") ("mass on a non-maximal action: q " ^ str_qs q ^ " p " ^ str_qs pol);
  if not (mass_on_maxb q_zero q probs) then
    oracle_fail "greedy_argmax" (site ^ "::getActionProbability") ("mass on a non-maximal action: q " ^ str_qs q ^ " p " ^ str_qs probs)

let corr_greedy_row exact site (q : q list) (pol : q list) (probs : q list) =
  c_vec exact "greedy_policy" (site ^ "::getPolicy") pol (greedy_policy q);
  c_vec exact "greedy_prob" (site ^ "::getActionProbability") probs (List.map (fun a -> greedy_prob q a) (range (List.length q)))


(* std::exp for the softmax model: OCaml's libm exp on the nearest double of the argument *)
let ex_float (x : q) : q =
  let f = exp (float_of_q x) in
  if Float.is_nan f || Float.abs f = Float.infinity then failwith "ex_float: non-finite" else q_of_float f

(* list of doubles that may contain nan/inf: oracle failure instead of a parse error *)
let next_qs_checked clause site (r : cursor) : q list =
  next_list r (fun r -> match next_x r with
      | Fin x -> x
      | _ -> oracle_fail clause site "non-finite probability (nan/inf)")

let judge_softmax_row site t (q : q list) (pol : q list) (probs : q list) =
  let a = List.length q in
  o_dist "softmax_dist" (site ^ "::getPolicy") false pol a;
  o_dist "softmax_dist" (site ^ "::getActionProbability") false probs a;
  o_agree "softmax_table_eq_query" site pol probs

let corr_softmax_row site t (q : q list) (pol : q list) (probs : q list) =
  c_vec false "softmax_policy" (site ^ "::getPolicy") pol (softmax_policy ex_float t q);
  c_vec false "softmax_prob" (site ^ "::getActionProbability") probs
    (List.map (fun a -> softmax_prob ex_float t q a) (range (List.length q)))

let all_ge2 (counts : nat list) = List.for_all (fun n -> ioN n >= 2) counts

(* one ThompsonSamplingPolicy::sampleAction call: oracle then correspondence *)
let judge_thompson_call (counts : nat list) (vals : q list) (act : nat) =
  let site = "ThompsonSamplingPolicy::sampleAction" in
  let a = List.length counts in
  if ioN act >= a then oracle_fail "thompson_argmax" site "action out of range";
  if all_ge2 counts then begin
    if not (q_eq (List.nth vals (ioN act)) (maxl vals)) then
      oracle_fail "thompson_argmax" site ("chose arm " ^ string_of_int (ioN act) ^ " but the posterior samples are " ^ str_qs vals)
  end else begin
    let rec first i = function [] -> -1 | n :: t -> if ioN n < 2 then i else first (i + 1) t in
    if ioN act <> first 0 counts then oracle_fail "thompson_unexplored_first" site "did not return the first under-explored arm"
  end;
  c_nat "thompson_sample" site act (thompson_sample (List.combine counts vals))

(* setter lists applied before the dumps: the implementation prints (thrown, getter) per call; the
   oracle checks acceptance/rejection and the getter against the specification of the setter *)
let fold_setter clause site (set : q -> q -> q) (throws : q -> bool) (cur0 : q) (sets : q list) (r : cursor) : q =
  let n = next_int r in
  if n <> List.length sets then failwith "setter count";
  List.fold_left (fun cur v ->
      let thrown = next_int r <> 0 in let g = next_q r in
      if thrown <> throws v then oracle_fail clause site ("set(" ^ string_of_q v ^ ") " ^ (if thrown then "threw" else "was accepted"));
      let cur' = set cur v in
      if not (q_eq g cur') then oracle_fail clause site ("getter returns " ^ string_of_q g ^ " after set(" ^ string_of_q v ^ "), expected " ^ string_of_q cur');
      cur') cur0 sets

let rec chunks n l = if l = [] then [] else take n l :: chunks n (List.filteri (fun i _ -> i >= n) l)

let judge _id (c : cursor) (r : cursor) : bool * string =
  let kind = next c in
  match kind with
  | "gr" ->
    let exact = (next c = "x") in
    let q = next_qs c in let sh = next_q c in let _seed = next_int c in let nsamp = next_int c in
    let qs = shift sh q in
    require_sep q; require_sep qs;
    let pol = next_qs r in let probs = next_qs r in let pols = next_qs r in let probss = next_qs r in
    let ns = next_int r in
    if ns <> nsamp then failwith "sample count";
    let samp = List.init nsamp (fun _ -> let cands = next_nats r in let a = next_nat r in (cands, a)) in
    let samps = List.init nsamp (fun _ -> let cands = next_nats r in let a = next_nat r in (cands, a)) in
    let site = "QGreedyPolicyWrapper" in
    (* O *)
    judge_greedy_row exact site q pol probs;
    judge_greedy_row exact site qs pols probss;
    if not (closeb tol pol pols) then oracle_fail "greedy_shift" (site ^ "::getPolicy") ("policy changed under shift: " ^ str_qs pol ^ " vs " ^ str_qs pols);
    if not (closeb tol probs probss) then oracle_fail "greedy_shift" (site ^ "::getActionProbability") "probabilities changed under shift";
    List.iter (fun (_, a) -> o_support "greedy_sample_in_support" (site ^ "::sampleAction") pol a) samp;
    List.iter (fun (_, a) -> o_support "greedy_sample_in_support" (site ^ "::sampleAction") pols a) samps;
    (* C *)
    corr_greedy_row exact site q pol probs;
    corr_greedy_row exact site qs pols probss;
    List.iter (fun (cands, a) -> c_nat "greedy_sample" (site ^ "::sampleAction") a (greedy_model_sample q cands)) samp;
    List.iter (fun (cands, a) -> c_nat "greedy_sample" (site ^ "::sampleAction") a (greedy_model_sample qs cands)) samps;
    let ties = List.length (greedy_tieset q) in
    (ties > 1 || ioN (List.hd (greedy_tieset q)) > 0, if ties > 1 then "gr-ties" else "gr")
  | "epg" ->
    let exact = (next c = "x") in
    let q = next_qs c in let eps0 = next_q c in let esets = next_qs c in let _seed = next_int c in let nsamp = next_int c in
    require_sep q;
    let a = List.length q in
    let eps = fold_setter "epsilon_set_spec" "EpsilonPolicyInterface::setEpsilon" eps_set eps_set_throws eps0 esets r in
    let pol = next_qs r in let probs = next_qs r in
    let ns = next_int r in
    if ns <> nsamp then failwith "sample count";
    let samp = List.init nsamp (fun _ ->
        let u = next_q r in let rr = next_nat r in let cands = next_nats r in let act = next_nat r in (u, rr, cands, act)) in
    let site = "EpsilonPolicyInterface" in
    o_dist "epsilon_mixture" (site ^ "::getPolicy") exact pol a;
    o_dist "epsilon_mixture" (site ^ "::getActionProbability") exact probs a;
    o_agree "epsilon_mixture" site pol probs;
    List.iter (fun (u, _, _, act) ->
        if q_lt q_zero eps || q_lt q_zero u then o_support "epsilon_sample_in_support" (site ^ "::sampleAction") pol act) samp;
    let g = greedy_policy q in
    c_vec exact "eps_policy" (site ^ "::getPolicy") pol (eps_policy eps g);
    c_vec exact "eps_prob" (site ^ "::getActionProbability") probs (List.map (fun p -> eps_prob eps (nat_of_int a) p) g);
    List.iter (fun (u, rr, cands, act) ->
        c_nat "eps_sample" (site ^ "::sampleAction") act (eps_sample eps u rr (greedy_model_sample q cands))) samp;
    (q_lt q_zero eps && q_lt eps q_one, if esets <> [] then "epg-setters" else "epg")
  | "mgr" ->
    let exact = (next c = "x") in
    let s = next_int c in let a = next_int c in
    let rows = List.init s (fun _ -> List.init a (fun _ -> next_q c)) in
    let eps0 = next_q c in let esets = next_qs c in let _seed = next_int c in
    List.iter require_sep rows;
    let eps = fold_setter "epsilon_set_spec" "MDP::EpsilonPolicy::setEpsilon" eps_set eps_set_throws eps0 esets r in
    let t1 = chunks a (next_qs r) in let t2 = chunks a (next_qs r) in
    let t3 = chunks a (next_qs r) in let t4 = chunks a (next_qs r) in
    if List.length t1 <> s || List.length t2 <> s || List.length t3 <> s || List.length t4 <> s then
      oracle_fail "greedy_rows_dist" "MDP::QGreedyPolicy::getPolicy" "wrong number of rows";
    let gs = List.init s (fun _ -> let cands = next_nats r in let act = next_nat r in (cands, act)) in
    let es = List.init s (fun _ ->
        let u = next_q r in let rr = next_nat r in let cands = next_nats r in let act = next_nat r in (u, rr, cands, act)) in
    let site = "MDP::QGreedyPolicy" and esite = "MDP::EpsilonPolicy" in
    List.iteri (fun i q ->
        judge_greedy_row exact site q (List.nth t1 i) (List.nth t2 i);
        o_dist "epsilon_mixture" (esite ^ "::getPolicy") exact (List.nth t3 i) a;
        o_dist "epsilon_mixture" (esite ^ "::getActionProbability") exact (List.nth t4 i) a;
        o_agree "epsilon_mixture" esite (List.nth t3 i) (List.nth t4 i);
        o_support "greedy_sample_in_support" (site ^ "::sampleAction") (List.nth t1 i) (snd (List.nth gs i));
        (let (u, _, _, act) = List.nth es i in
         if q_lt q_zero eps || q_lt q_zero u then o_support "epsilon_sample_in_support" (esite ^ "::sampleAction") (List.nth t3 i) act)) rows;
    List.iteri (fun i q ->
        corr_greedy_row exact site q (List.nth t1 i) (List.nth t2 i);
        let g = greedy_policy q in
        c_vec exact "eps_policy" (esite ^ "::getPolicy") (List.nth t3 i) (eps_policy eps g);
        c_vec exact "eps_prob" (esite ^ "::getActionProbability") (List.nth t4 i) (List.map (fun p -> eps_prob eps (nat_of_int a) p) g);
        (let (cands, act) = List.nth gs i in c_nat "greedy_sample" (site ^ "::sampleAction") act (greedy_model_sample q cands));
        (let (u, rr, cands, act) = List.nth es i in
         c_nat "eps_sample" (esite ^ "::sampleAction") act (eps_sample eps u rr (greedy_model_sample q cands)))) rows;
    (s > 1, "mgr")
  | "lrp" ->
    let exact = (next c = "x") in
    let an = next_nat c in let a = ioN an in
    let pa = next_q c in let pb = next_q c in let eps0 = next_q c in
    let nops = next_int c in
    let ops = List.init nops (fun _ ->
        match next c with
        | "u" -> let act = next_nat c in let res = next_int c <> 0 in LUpd (act, res)
        | "a" -> LSetA (next_q c)
        | "b" -> LSetB (next_q c)
        | t -> failwith ("lrp op " ^ t)) in
    let esets = next_qs c in
    let _seed = next_int c in let nsamp = next_int c in
    let site = "LRPPolicy" and esite = "EpsilonPolicyInterface" in
    let rd_tab () = let p = next_qs_checked "lrp_simplex_invariant" (site ^ "::stepUpdateP") r in
      let pr = next_qs_checked "lrp_simplex_invariant" (site ^ "::getActionProbability") r in
      let ga = next_q r in let gb = next_q r in (p, pr, ga, gb) in
    let tables = List.init (nops + 1) (fun _ -> rd_tab ()) in
    let epol = next_qs r in let eprobs = next_qs r in
    let esteps = List.map (fun v -> let thrown = next_int r <> 0 in let ge = next_q r in
                            let p = next_qs r in let pr = next_qs r in (v, thrown, ge, p, pr)) esets in
    let samp = List.init nsamp (fun _ -> let u = next_q r in let act = next_nat r in (u, act)) in
    let esamp = List.init nsamp (fun _ ->
        let u = next_q r in let rr = next_nat r in let ul = next_q r in let act = next_nat r in (u, rr, ul, act)) in
    (* O: every prefix of the history (updates and setters) leaves a probability vector; table = queries *)
    List.iter (fun (p, pr, _, _) ->
        o_dist "lrp_simplex_invariant" (site ^ "::stepUpdateP") exact p a;
        o_agree "lrp_table_eq_query" site p pr) tables;
    let (final, _, _, _) = List.nth tables nops in
    o_dist "epsilon_mixture" (esite ^ "::getPolicy") exact epol a;
    o_agree "epsilon_mixture" esite epol eprobs;
    let eps = ref eps0 in
    List.iter (fun (v, thrown, ge, p, pr) ->
        let should = eps_set_throws v in
        if thrown <> should then oracle_fail "epsilon_set_spec" (esite ^ "::setEpsilon") ("setEpsilon(" ^ string_of_q v ^ ") " ^ (if thrown then "threw" else "was accepted"));
        eps := eps_set !eps v;
        if not (q_eq ge !eps) then oracle_fail "epsilon_set_spec" (esite ^ "::setEpsilon") ("getEpsilon() = " ^ string_of_q ge ^ " after setEpsilon(" ^ string_of_q v ^ ")");
        o_dist "epsilon_setters" (esite ^ "::getPolicy") exact p a;
        o_agree "epsilon_setters" esite p pr) esteps;
    let eps = !eps in
    let (efinal_pol) = (match List.rev esteps with [] -> epol | (_, _, _, p, _) :: _ -> p) in
    List.iter (fun (_, act) -> o_support "sample_prob_in_support" (site ^ "::sampleAction") final act) samp;
    List.iter (fun (u, _, _, act) ->
        if q_lt q_zero eps || q_lt q_zero u then o_support "epsilon_sample_in_support" (esite ^ "::sampleAction") efinal_pol act) esamp;
    (* C *)
    let st = ref (lrp_init an pa pb) in
    List.iteri (fun i (p, _, ga, gb) ->
        if i > 0 then st := lrp_apply !st (List.nth ops (i - 1));
        c_vec exact "lrp_apply" (site ^ "::stepUpdateP") p (lrp_pol !st);
        c_vec false "lrp_getters" (site ^ "::getAParam/getBParam") [ga; gb] [lrp_getA !st; lrp_getB !st]) tables;
    let mfinal = lrp_pol !st in
    c_vec exact "eps_policy" (esite ^ "::getPolicy") epol (eps_policy eps0 mfinal);
    c_vec exact "eps_prob" (esite ^ "::getActionProbability") eprobs (List.map (fun p -> eps_prob eps0 an p) mfinal);
    let e = ref eps0 in
    List.iter (fun (v, _, _, p, pr) ->
        e := eps_set !e v;
        c_vec exact "eps_policy" (esite ^ "::getPolicy") p (eps_policy !e mfinal);
        c_vec exact "eps_prob" (esite ^ "::getActionProbability") pr (List.map (fun x -> eps_prob !e an x) mfinal)) esteps;
    (* sampling is decided on the implementation's own (double) table, so that rounding of the
       table cannot flip a comparison *)
    List.iter (fun (u, act) -> c_nat "sample_prob" (site ^ "::sampleAction") act (sample_prob final u)) samp;
    List.iter (fun (u, rr, ul, act) ->
        c_nat "eps_sample" (esite ^ "::sampleAction") act (eps_sample eps u rr (sample_prob final ul))) esamp;
    let nset = List.length (List.filter (function LUpd _ -> false | _ -> true) ops) in
    (nops > 0, if nset > 0 then "lrp-setters" else if nops > 3 then "lrp-long" else "lrp")
  | "smx" | "smu" ->
    let _flag = next c in
    let t0 = next_q c in let tsets = next_qs c in
    let q = next_qs c in let sh = next_q c in let _seed = next_int c in let nsamp = next_int c in
    let t = fold_setter "softmax_temperature_set_spec" "Bandit::QSoftmaxPolicy::setTemperature" temp_set temp_set_throws t0 tsets r in
    let t' = fold_setter "softmax_temperature_set_spec" "MDP::QSoftmaxPolicy::setTemperature" temp_set temp_set_throws t0 tsets r in
    if not (q_eq t t') then failwith "temperature fold";
    let qs = shift sh q in
    let greedy = q_le (q_abs t) (q_of_ints 1 1000000) in
    if greedy then (require_sep q; require_sep qs);
    let site = "QSoftmaxPolicyWrapper" in
    let rd () = next_qs_checked "softmax_dist" site r in
    let pol = rd () in let probs = rd () in let pols = rd () in let probss = rd () in
    let m0 = rd () in let m0p = rd () in let m1 = rd () in let m1p = rd () in
    let ns = next_int r in
    if ns <> nsamp then failwith "sample count";
    let rd_s () = List.init nsamp (fun _ -> let cands = next_nats r in let u = next_q r in let act = next_nat r in (cands, u, act)) in
    let samp = rd_s () in let msamp = rd_s () in
    (* O *)
    judge_softmax_row site t q pol probs;
    judge_softmax_row site t qs pols probss;
    judge_softmax_row site t q m0 m0p;
    judge_softmax_row site t qs m1 m1p;
    if not (closeb tol pol pols) then oracle_fail "softmax_shift" site ("policy changed under shift: " ^ str_qs pol ^ " vs " ^ str_qs pols);
    if not (closeb tol m0 m1) then oracle_fail "softmax_shift" site "MDP policy rows differ under shift";
    List.iter (fun (_, _, act) -> o_support "softmax_sample_in_support" (site ^ "::sampleAction") pol act) samp;
    List.iteri (fun k (_, _, act) -> o_support "softmax_sample_in_support" (site ^ "::sampleAction") (if k mod 2 = 0 then m0 else m1) act) msamp;
    (* C *)
    corr_softmax_row site t q pol probs;
    corr_softmax_row site t qs pols probss;
    corr_softmax_row site t q m0 m0p;
    corr_softmax_row site t qs m1 m1p;
    (* sampling decided on the implementation's own table (see lrp) *)
    let model_sample qq table (cands, u, _) =
      if greedy then greedy_model_sample qq cands else sample_prob table u in
    List.iter (fun ((_, _, act) as s) -> c_nat "softmax_sample" (site ^ "::sampleAction") act (model_sample q pol s)) samp;
    List.iteri (fun k ((_, _, act) as s) ->
        c_nat "softmax_sample" (site ^ "::sampleAction") act
          (if k mod 2 = 0 then model_sample q m0 s else model_sample qs m1 s)) msamp;
    (not greedy, if greedy then "smx-T0" else if tsets <> [] then kind ^ "-setters" else kind)
  | "msm" ->
    let t = next_q c in
    let s = next_int c in let a = next_int c in
    let base = List.init s (fun _ -> List.init a (fun _ -> next_q c)) in
    let offs = next_qs c in
    let eps = next_q c in let _seed = next_int c in
    let rows = List.map2 (fun row o -> shift o row) base offs in
    List.iter require_sep rows;
    let greedy = q_le (q_abs t) (q_of_ints 1 1000000) in
    let site = "MDP::QSoftmaxPolicy" and gsite = "MDP::QGreedyPolicy" and esite = "MDP::EpsilonPolicy" in
    let rd st = chunks a (next_qs_checked "softmax_dist" st r) in
    let st = rd (site ^ "::getPolicy") in let sp = rd (site ^ "::getActionProbability") in
    let gt = rd gsite in let gp = rd gsite in let et = rd esite in let ep = rd esite in
    let samp = List.init s (fun _ -> let cands = next_nats r in let u = next_q r in let act = next_nat r in (cands, u, act)) in
    if List.exists (fun x -> List.length x <> s) [st; sp; gt; gp; et; ep] then oracle_fail "softmax_dist" site "wrong number of rows";
    (* O, state by state: every row a distribution, table == per-action queries, and the row of the
       softmax table does not depend on where the row sits (it equals the row computed by the queries,
       which use the row's own maximum) *)
    List.iteri (fun i q ->
        judge_softmax_row site t q (List.nth st i) (List.nth sp i);
        judge_greedy_row false gsite q (List.nth gt i) (List.nth gp i);
        o_dist "epsilon_mixture" (esite ^ "::getPolicy") false (List.nth et i) a;
        o_agree "epsilon_mixture" esite (List.nth et i) (List.nth ep i);
        (let (_, _, act) = List.nth samp i in o_support "softmax_sample_in_support" (site ^ "::sampleAction") (List.nth st i) act)) rows;
    (* C: the per-row model on the shifted row and (row-shift invariance) on the base row *)
    List.iteri (fun i q ->
        corr_softmax_row site t q (List.nth st i) (List.nth sp i);
        if not greedy then c_vec false "softmax_row_shift" (site ^ "::getPolicy") (List.nth st i) (softmax_policy ex_float t (List.nth base i));
        corr_greedy_row false gsite q (List.nth gt i) (List.nth gp i);
        let g = greedy_policy q in
        c_vec false "eps_policy" (esite ^ "::getPolicy") (List.nth et i) (eps_policy eps g);
        c_vec false "eps_prob" (esite ^ "::getActionProbability") (List.nth ep i) (List.map (fun p -> eps_prob eps (nat_of_int a) p) g);
        (let ((cands, u, act)) = List.nth samp i in
         c_nat "softmax_sample" (site ^ "::sampleAction") act
           (if greedy then greedy_model_sample q cands else sample_prob (List.nth st i) u))) rows;
    (s > 1, if greedy then "msm-T0" else "msm")
  | "ts" | "tsn" ->
    let _a = next_int c in
    let counts = next_nats r in
    let ns = next_int r in
    let samp = List.init ns (fun _ -> let vals = next_qs r in let act = next_nat r in (vals, act)) in
    List.iter (fun (vals, act) -> judge_thompson_call counts vals act) samp;
    (all_ge2 counts, kind)
  | "t3c" ->
    let a = next_int c in
    let nrec = next_int c in
    for _i = 1 to nrec do ignore (next c); ignore (next c) done;
    let beta = next_q c in let var = next_q c in
    let counts = next_nats r in
    let means = next_qs r in
    let ns = next_int r in
    let site = "T3CPolicy::sampleAction" in
    let nt = ref false and ill = ref false in
    for _k = 1 to ns do
      let vals = next_qs r in let us = next_qs r in let act = next_nat r in
      if ioN act >= a then oracle_fail "t3c_result" site "action out of range";
      (* the Thompson leader (checked against the replayed posterior samples as for ts) *)
      let first = thompson_sample (List.combine counts vals) in
      let explored = ioN (List.nth counts (ioN first)) >= 2 in
      let pick = (match us with u0 :: _ -> q_lt u0 beta | [] -> failwith "t3c: no draws") in
      let rest = (match us with _ :: t -> t | [] -> []) in
      if explored && (not pick) && a >= 2 then begin
        nt := true;
        let costs = t3c_costs means counts var first in
        (* O: the challenger differs from the leader and no other arm is clearly cheaper *)
        let cost x = t3c_cost means counts var first x in
        if ioN act = ioN first then oracle_fail "t3c_result" site "challenger equals the leader";
        let ca = cost act in
        List.iter (fun (x, w) ->
            if ioN x <> ioN act && q_lt (q_add w (q_mul (q_of_ints 1 1000000) (q_add q_one (q_abs w)))) ca then
              oracle_fail "t3c_result" site ("arm " ^ string_of_int (ioN x) ^ " is cheaper than the chosen challenger " ^ string_of_int (ioN act))) costs;
        (* C only when no two costs are nearly (but not structurally) tied *)
        let key x = (string_of_q (List.nth means (ioN x)), ioN (List.nth counts (ioN x))) in
        List.iter (fun (x, w) -> List.iter (fun (y, w') ->
            if ioN x < ioN y then begin
              let d = q_abs (q_sub w w') in
              if (not (q_eq w w')) && q_lt d (q_mul (q_of_ints 1 1000000000) (q_add q_one (q_abs w))) then ill := true;
              if q_eq w w' && (not (q_eq w q_zero)) && key x <> key y then ill := true
            end) costs) costs;
        if not !ill then c_nat "t3c_sample" site act (t3c_sample means counts var first false rest)
      end else
        c_nat "t3c_sample" site act (t3c_sample means counts var first pick rest)
    done;
    (!nt, if !ill then "t3c-illcond" else "t3c")
  | "tt" | "ttn" ->
    let _a = next_int c in
    let counts = next_nats r in
    let ns = next_int r in
    let site = "TopTwoThompsonSamplingPolicy::sampleAction" in
    let nt = ref false in
    for _k = 1 to ns do
      let ncalls = next_int r in
      let calls = List.init ncalls (fun _ -> let vals = next_qs r in let act = next_nat r in (vals, act)) in
      let pick = next_int r in let hang = next_int r <> 0 in let final = next_nat r in
      List.iter (fun (vals, act) -> judge_thompson_call counts vals act) calls;
      (* a loop that has not ended within 300 draws (one arm dominates) is not a violation: the real
         call was skipped by the harness and there is nothing to compare *)
      if (not hang) && ioN final >= List.length counts then oracle_fail "toptwo_in_range" site "action out of range";
      (match calls with
       | [] -> failwith "tt: no inner call"
       | _ when hang -> ()
       | (_, first) :: rest ->
         (match toptwo_sample counts first (pick = 1) (List.map snd rest) with
          | None -> disagree "toptwo_sample" site "model: loop not finished within the observed stream"
          | Some m -> c_nat "toptwo_sample" site final m);
         if rest <> [] then nt := true)
    done;
    (!nt, kind)
  | "wolf" ->
    let s = next_int c in let a = next_int c in
    let rows = List.init s (fun _ -> List.init a (fun _ -> next_q c)) in
    List.iter require_sep rows;
    let dw0 = next_q c in let dl0 = next_q c in let sc0 = next_q c in
    let nops = next_int c in
    let ops = List.init nops (fun _ ->
        match next c with
        | "u" -> `U (next_int c)
        | "w" -> `W (next_q c) | "l" -> `L (next_q c) | "s" -> `S (next_q c)
        | t -> failwith ("wolf op " ^ t)) in
    let _seed = next_int c in
    let site = "WoLFPolicy" in
    let rd_tables () = let t = chunks a (next_qs_checked "wolf_rows_dist" (site ^ "::stepUpdateP") r) in
      let pr = chunks a (next_qs_checked "wolf_rows_dist" (site ^ "::getActionProbability") r) in (t, pr) in
    let t0 = rd_tables () in
    let steps = List.map (fun op ->
        match op with
        | `U _ -> let cands = next_nats r in let tb = rd_tables () in (op, cands, [], tb)
        | _ -> let g1 = next_q r in let g2 = next_q r in let g3 = next_q r in let tb = rd_tables () in (op, [], [g1; g2; g3], tb)) ops in
    let samp = List.init s (fun _ -> let u = next_q r in let act = next_nat r in (u, act)) in
    (* O: every dumped table: rows are probability vectors, table = queries; getters = last value set *)
    let o_tables (t, pr) =
      if List.length t <> s then oracle_fail "wolf_rows_dist" (site ^ "::getPolicy") "wrong number of rows";
      List.iter2 (fun row prow ->
          o_dist "wolf_rows_dist" (site ^ "::stepUpdateP") false row a;
          o_agree "wolf_table_eq_query" site row prow) t pr in
    o_tables t0;
    let dw = ref dw0 and dl = ref dl0 and sc = ref sc0 in
    List.iter (fun (op, _, getters, tb) ->
        (match op with `W v -> dw := v | `L v -> dl := v | `S v -> sc := v | `U _ -> ());
        if getters <> [] && not (List.for_all2 q_close getters [!dw; !dl; !sc]) then
          oracle_fail "wolf_setters" (site ^ "::setDeltaW/setDeltaL/setScaling") ("getters " ^ str_qs getters);
        o_tables tb) steps;
    let (tfinal, _) = (match List.rev steps with [] -> t0 | (_, _, _, tb) :: _ -> tb) in
    List.iteri (fun i (_, act) -> o_support "sample_prob_in_support" (site ^ "::sampleAction") (List.nth tfinal i) act) samp;
    (* C: the model follows the history while every deltaW/deltaL decision has a clear margin *)
    let st = Array.make s (wolf_init (nat_of_int a)) in
    let cnt = Array.make s 0 in
    let cmp (t, _) = List.iteri (fun i row -> c_vec false "wolf_step" (site ^ "::stepUpdateP") row (w_act st.(i))) t in
    cmp t0;
    let ill = ref false in
    dw := dw0; dl := dl0; sc := sc0;
    List.iter (fun (op, cands, _, tb) ->
        if not !ill then begin
          match op with
          | `W v -> dw := v; cmp tb
          | `L v -> dl := v; cmp tb
          | `S v -> sc := v; cmp tb
          | `U sidx ->
          let q = List.nth rows sidx in
          let margin = wolf_margin q st.(sidx) in
          (* deltaW/deltaL decision on (near-)equal values: the double comparison may go either
             way, except on the first update of a row with A a power of two (both sides are then
             computed from bit-identical rows) *)
          let first_exact = q_eq margin q_zero && cnt.(sidx) = 0 && (a land (a - 1)) = 0 in
          if (not (q_eq !dw !dl)) && q_lt (q_abs margin) (q_of_ints 1 10000000) && not first_exact then ill := true;
          if not !ill then begin
            let ties = List.length (greedy_tieset q) in
            let sel = List.nth cands (ties - 1) in
            st.(sidx) <- wolf_step_row !dw !dl !sc q st.(sidx) sel;
            cnt.(sidx) <- cnt.(sidx) + 1;
            cmp tb
          end
        end) steps;
    if not !ill then
      List.iteri (fun i (u, act) -> c_nat "sample_prob" (site ^ "::sampleAction") act (sample_prob (List.nth tfinal i) u)) samp;
    let nset = List.length (List.filter (function `U _ -> false | _ -> true) ops) in
    (nops > 0 && not !ill, if !ill then "wolf-illcond" else if nset > 0 then "wolf-setters" else "wolf")
  | "mpol" ->
    let s_ = next_int c in let a = next_int c in
    let rows = List.init s_ (fun _ -> List.init a (fun _ -> next_q c)) in
    let _seed = next_int c in
    let site = "MDP::Policy" in
    let thrown = next_int r <> 0 in
    (* O: the constructor accepts exactly the matrices all of whose rows are probability vectors
       (cases keep every row sum either within 1e-9 of one or further than 1e-3 from it) *)
    let ok = is_prob_matrixb rows in
    if thrown && ok then oracle_fail "policy_ctor_rows_dist" (site ^ "::Policy") "a valid policy matrix was rejected";
    if (not thrown) && not ok then begin
      (* what was accepted is not a policy: name the offending row *)
      let bad = List.find (fun row -> not (prob_rowb row)) rows in
      oracle_fail "policy_ctor_rejects" (site ^ "::Policy") ("accepted a matrix with the row " ^ str_qs bad)
    end;
    if thrown then (true, "mpol-rejected") else begin
      let t = chunks a (next_qs r) in let pr = chunks a (next_qs r) in
      let samp = List.init s_ (fun _ -> let u = next_q r in let act = next_nat r in (u, act)) in
      List.iter2 (fun row prow -> o_dist "policy_rows_dist" (site ^ "::getPolicy") false row a; o_agree "policy_table_eq_query" site row prow) t pr;
      List.iteri (fun i (_, act) -> o_support "sample_prob_in_support" (site ^ "::sampleAction") (List.nth t i) act) samp;
      List.iter2 (fun row m -> c_vec true "policy_matrix" (site ^ "::getPolicy") row m) t rows;
      List.iteri (fun i (u, act) -> c_nat "sample_prob" (site ^ "::sampleAction") act (sample_prob (List.nth rows i) u)) samp;
      (s_ > 1, "mpol")
    end
  | "pga" ->
    let s = next_int c in let a = next_int c in
    let rows = List.init s (fun _ -> List.init a (fun _ -> next_q c)) in
    let lr0 = next_q c in let pl0 = next_q c in
    let nops = next_int c in
    let ops = List.init nops (fun _ ->
        match next c with
        | "u" -> `U (next_int c)
        | "r" -> `R (next_q c) | "p" -> `P (next_q c)
        | "q" -> let si = next_int c in let ai = next_int c in let v = next_q c in `Q (si, ai, v)
        | "z" -> let si = next_int c in let ai = next_int c in let v = next_q c in `Q (si, ai, v)
        | t -> failwith ("pga op " ^ t)) in
    let _seed = next_int c in
    let site = "PGAAPPPolicy" in
    let rd_tables () = let t = chunks a (next_qs_checked "pgaapp_rows_dist" (site ^ "::stepUpdateP") r) in
      let pr = chunks a (next_qs_checked "pgaapp_rows_dist" (site ^ "::getActionProbability") r) in (t, pr) in
    let t0 = rd_tables () in
    let steps = List.map (fun op ->
        match op with
        | `U _ -> let tb = rd_tables () in (op, None, tb)
        | `Q (si, ai, _) -> let v = next_q r in let tb = rd_tables () in (`Q (si, ai, v), None, tb)   (* the value actually written *)
        | _ -> let thrown = next_int r <> 0 in let g1 = next_q r in let g2 = next_q r in let tb = rd_tables () in (op, Some (thrown, g1, g2), tb)) ops in
    let samp = List.init s (fun _ -> let u = next_q r in let act = next_nat r in (u, act)) in
    (* O: what isProbability checks (entries >= 0, sum within 1e-6 of one), table = queries;
       setters: negative values throw and change nothing, getters = value in force *)
    let tol6 = q_of_ints 1001 1000000000 in
    let o_tables (t, pr) =
      if List.length t <> s then oracle_fail "pgaapp_rows_dist" (site ^ "::getPolicy") "wrong number of rows";
      List.iter2 (fun row prow ->
          if List.length row <> a || not (is_dist_tolb tol6 row) then
            oracle_fail "pgaapp_rows_dist" (site ^ "::stepUpdateP") ("row is not a probability vector: " ^ str_qs row);
          o_agree "pgaapp_table_eq_query" site row prow) t pr in
    o_tables t0;
    let lr = ref lr0 and pl = ref pl0 in
    List.iter (fun (op, info, tb) ->
        (match op, info with
         | (`R v | `P v), Some (thrown, g1, g2) ->
           if thrown <> neg_throws v then oracle_fail "pgaapp_setters" (site ^ "::setLearningRate/setPredictionLength") ("set(" ^ string_of_q v ^ ") " ^ (if thrown then "threw" else "was accepted"));
           if not thrown then (match op with `R _ -> lr := v | _ -> pl := v);
           if not (q_close g1 !lr && q_close g2 !pl) then oracle_fail "pgaapp_setters" (site ^ "::setLearningRate/setPredictionLength") "getters do not return the values in force"
         | _ -> ());
        o_tables tb) steps;
    let (tfinal, _) = (match List.rev steps with [] -> t0 | (_, _, tb) :: _ -> tb) in
    List.iteri (fun i (_, act) -> o_support "sample_prob_in_support" (site ^ "::sampleAction") (List.nth tfinal i) act) samp;
    (* C: one-step simulation — the model's update applied to the implementation's previous row *)
    let e6 = q_of_ints 1 1000000 and e8 = q_of_ints 1 100000000 and e12 = q_of_ints 1 1000000000000 in
    let near x y = q_lt (q_abs (q_sub x y)) e8 in
    let ill = ref 0 and boundary = ref 0 in
    let prev = ref (fst t0) in
    let qt = Array.of_list (List.map Array.of_list rows) in
    lr := lr0; pl := pl0;
    List.iter (fun (op, _, (t, _)) ->
        match op with
        | `R v -> if not (neg_throws v) then lr := v;
          List.iteri (fun i row -> c_vec true "pga_other_rows" (site ^ "::setLearningRate") (List.nth t i) row) !prev; prev := t
        | `P v -> if not (neg_throws v) then pl := v;
          List.iteri (fun i row -> c_vec true "pga_other_rows" (site ^ "::setPredictionLength") (List.nth t i) row) !prev; prev := t
        | `Q (si, ai, v) -> qt.(si).(ai) <- v;
          List.iteri (fun i row -> c_vec true "pga_other_rows" (site ^ "::q_") (List.nth t i) row) !prev; prev := t
        | `U sidx ->
        let q = Array.to_list qt.(sidx) in
        let p = List.nth !prev sidx in
        let g = pga_grad_row !lr !pl q p in
        let ps = possum g in
        let bad = near (q_abs (q_sub ps q_one)) e6 || near ps e6
                  || List.exists (fun pa -> near (q_abs (q_sub pa q_one)) e6) p
                  || List.exists (fun x -> q_lt (q_abs x) e12 && not (q_eq x q_zero)) g in
        if List.exists (fun x -> q_lt x q_zero) g then incr boundary;
        if bad then incr ill
        else c_vec false "pga_step" (site ^ "::stepUpdateP") (List.nth t sidx) (List.map vio_qred (project g));   (* = pga_step_row lr pl q p *)
        List.iteri (fun i row -> if i <> sidx then c_vec true "pga_other_rows" (site ^ "::stepUpdateP") (List.nth t i) row) !prev;
        prev := t) steps;
    List.iteri (fun i (u, act) -> c_nat "sample_prob" (site ^ "::sampleAction") act (sample_prob (List.nth tfinal i) u)) samp;
    let nset = List.length (List.filter (function `U _ -> false | _ -> true) ops) in
    let nq = List.length (List.filter (function `Q _ -> true | _ -> false) ops) in
    (nops > 0, if nq > 0 then "pga-qswitch" else if !boundary > 0 then "pga-boundary" else if nset > 0 then "pga-setters" else "pga")
  | "esrl" ->
    let an = next_nat c in let a = ioN an in
    let pa = next_q c in
    let n0 = next_nat c in let ph0 = next_nat c in let w0 = next_nat c in
    let nops = next_int c in
    let ops = List.init nops (fun _ ->
        match next c with
        | "u" -> let act = next_nat c in let res = next_int c <> 0 in EUpd (act, res)
        | "a" -> ESetA (next_q c)
        | "t" -> ESetN (next_nat c)
        | "e" -> ESetPhases (next_nat c)
        | "w" -> ESetWindow (next_nat c)
        | t -> failwith ("esrl op " ^ t)) in
    let site = "ESRLPolicy" in
    let rd first =
      let u = next_q r in
      let pol = next_qs_checked "esrl_rows_dist" (site ^ "::getPolicy") r in
      let probs = next_qs_checked "esrl_rows_dist" (site ^ "::getActionProbability") r in
      let act = next_nat r in
      let (ex, ga) = if first then (false, pa) else (let e = next_int r <> 0 in let g = next_q r in (e, g)) in
      (u, pol, probs, act, ex, ga) in
    let s0 = rd true in
    let steps = List.map (fun op -> (op, rd false)) ops in
    (* O: after every operation (updates and setters): distribution, table = queries, sample in support *)
    let o_one (_, pol, probs, act, _, _) =
      o_dist "esrl_rows_dist" (site ^ "::getPolicy") false pol a;
      o_agree "esrl_rows_dist" site pol probs;
      o_support "esrl_rows_dist" (site ^ "::sampleAction") pol act in
    o_one s0; List.iter (fun (_, x) -> o_one x) steps;
    (* C: the state machine (phases, allowed actions, embedded LRI, exploitation switch) *)
    let st = ref (esrl_init an pa n0 ph0 w0) in
    let ill = ref false and switched = ref 0 in
    let near_tie (v : q list) =
      match List.sort (fun x y -> q_cmp y x) v with
      | x :: y :: _ -> (not (q_eq x y)) && q_lt (q_sub x y) (q_of_ints 1 1000000000)
      | _ -> false in
    let cmp (u, pol, probs, act, ex, ga) first =
      c_vec false "esrl_policy" (site ^ "::getPolicy") pol (esrl_policy !st);
      c_vec false "esrl_prob" (site ^ "::getActionProbability") probs (List.map (fun x -> esrl_prob !st x) (range a));
      if not first then begin
        if ex <> e_exploit !st then disagree "esrl_exploit" (site ^ "::isExploiting") "exploitation flag differs";
        c_vec false "esrl_getA" (site ^ "::getAParam") [ga] [lrp_getA (e_lri !st)]
      end;
      c_nat "esrl_sample" (site ^ "::sampleAction") act (esrl_sample !st u) in
    cmp s0 true;
    List.iter (fun (op, obs) ->
        if not !ill then begin
          let before_expl = ioN (e_expl !st) and before_ex = e_exploit !st in
          (* decisions taken on (near-)ties that are not exact ties may go either way in doubles *)
          (match op with
           | EUpd (act, _) ->
             let ends = ioN (e_expl !st) < ioN (e_phases !st) && index_of act (e_allowed !st) <> None
                        && ioN (e_t !st) + 1 >= ioN (e_N !st) in
             let st' = esrl_apply !st op in
             if ends && near_tie (lrp_pol (lrp_step (e_lri !st) ((match index_of act (e_allowed !st) with Some i -> i | None -> O), (match op with EUpd (_, r) -> r | _ -> false)))) then ill := true;
             if (not before_ex) && e_exploit st' && near_tie (e_values !st) then ill := true;
             st := st'
           | _ -> st := esrl_apply !st op);
          if not !ill then begin
            cmp obs false;
            if ioN (e_expl !st) <> before_expl || e_exploit !st <> before_ex then incr switched
          end
        end) steps;
    (!switched > 0, if !ill then "esrl-illcond" else if !switched > 0 then "esrl-phases" else "esrl")
  | "sr" ->
    let an = next_nat c in let a = ioN an in
    let budget = next_nat c in
    let site = "SuccessiveRejectsPolicy" in
    let rd first =
      let means = if first then [] else next_qs r in
      let pol = next_qs_checked "sr_rows_dist" (site ^ "::getPolicy") r in
      let probs = next_qs_checked "sr_rows_dist" (site ^ "::getActionProbability") r in
      let act = next_nat r in
      let phase = next_int r in let nk = next_int r in
      let can = if first then false else next_int r <> 0 in
      let avail = List.map ioN (next_nats r) in
      (means, pol, probs, act, phase, nk, can, avail) in
    let s0 = rd true in
    let steps = ref [] in
    while not (at_end r) do steps := rd false :: !steps done;
    let steps = List.rev !steps in
    (* O: the table is a distribution (the indicator of the arm to pull), equals the queries, the arm to
       pull has probability one; rejected arms never come back; one arm is left at the end *)
    let prev_avail = ref (List.init a (fun i -> i)) in
    let o_one (_, pol, probs, act, phase, _, can, avail) =
      o_dist "sr_safety" (site ^ "::getPolicy") true pol a;
      o_agree "sr_safety" site pol probs;
      o_support "sr_safety" (site ^ "::sampleAction") pol act;
      (* on the implementation's own available set: it only shrinks, the arm to pull is in it (so a
         rejected arm is never pulled again), one arm fewer per phase, a single arm at the end *)
      if not (List.for_all (fun x -> List.mem x !prev_avail) avail) then
        oracle_fail "sr_rejected_never_again" (site ^ "::stepUpdateQ") "a rejected arm became available again";
      if not (List.mem (ioN act) avail) then
        oracle_fail "sr_rejected_never_again" (site ^ "::sampleAction") ("arm " ^ string_of_int (ioN act) ^ " is not among the available arms");
      if phase <= a && List.length avail + phase <> a + 1 then
        oracle_fail "sr_safety" (site ^ "::stepUpdateQ") "number of available arms is not A + 1 - phase";
      if (phase > a || can) && List.length avail <> 1 then
        oracle_fail "sr_eventually_one" (site ^ "::stepUpdateQ") "more than one arm left at the end";
      prev_avail := avail in
    o_one s0; List.iter o_one steps;
    (* C: the elimination state machine; n_k = ceil(x) is compared only when no x is within 1e-6 of an
       integer (the C++ evaluates x in doubles) *)
    let lb = logbar an in
    let illnk = ref false in
    if a > 2 then
      for k = 1 to a do
        let x = float_of_q (vio_qdiv (q_of_int (max 0 (ioN budget - a))) (q_mul lb (q_of_int (a + 1 - k)))) in
        if Float.abs (x -. Float.round x) < 1e-6 then illnk := true
      done;
    if !illnk then (false, "sr-illcond") else begin
      let st = ref (sr_init an budget) in
      let cmp (_, pol, _, act, phase, nk, can, avail) first =
        if avail <> List.map ioN (sr_avail !st) then disagree "sr_avail" (site ^ "::stepUpdateQ") "available arms differ";
        c_nat "sr_sample" (site ^ "::sampleAction") act (sr_sample !st);
        c_vec true "sr_policy" (site ^ "::getPolicy") pol (sr_policy !st);
        if phase <> ioN (sr_phase !st) then disagree "sr_phase" (site ^ "::getCurrentPhase") ("impl " ^ string_of_int phase ^ " model " ^ string_of_int (ioN (sr_phase !st)));
        if nk <> ioN (sr_new !st) then disagree "sr_nk" (site ^ "::getCurrentNk") ("impl " ^ string_of_int nk ^ " model " ^ string_of_int (ioN (sr_new !st)));
        if (not first) && can <> (List.length (sr_avail !st) = 1) then disagree "sr_avail" (site ^ "::canRecommendAction") "differs" in
      cmp s0 true;
      List.iter (fun ((means, _, _, _, _, _, _, _) as obs) ->
          st := sr_step !st means;
          cmp obs false) steps;
      let fin = List.length (sr_avail !st) = 1 in
      (ioN (sr_phase !st) > 1, if fin then "sr-finished" else "sr")
    end
  | "rnd" ->
    let a = next_int c in
    let site = "RandomPolicy" in
    let clause x = kind ^ "_" ^ x in
    let n = ref 0 and phases = ref [] in
    while not (at_end r) do
      let pol = next_qs_checked (clause "rows_dist") (site ^ "::getPolicy") r in
      let probs = next_qs_checked (clause "rows_dist") (site ^ "::getActionProbability") r in
      let act = next_nat r in
      if !n > 0 && kind <> "rnd" then phases := next r :: !phases;
      o_dist (clause "rows_dist") (site ^ "::getPolicy") false pol a;
      o_agree (clause "table_eq_query") site pol probs;
      o_support (clause "sample_in_support") (site ^ "::sampleAction") pol act;
      if kind = "rnd" then c_vec false "random_policy" (site ^ "::getPolicy") pol (List.init a (fun _ -> vio_qdiv q_one (q_of_int a)));
      incr n
    done;
    (List.length (List.sort_uniq compare !phases) > 1 || kind = "rnd", kind)
  | "brnd" ->
    (* round 6: Bandit::RandomPolicy against rnd_policy / rnd_prob / rnd_sample / rnd_bounds *)
    let a = next_int c in
    let site = "Bandit::RandomPolicy" in
    let ga = next_int r in let lo = next_nat r in let hi = next_nat r in
    let obs = ref [] in
    while not (at_end r) do
      let draw = next_nat r in
      let pol = next_qs_checked "random_dist" (site ^ "::getPolicy") r in
      let probs = next_qs_checked "random_dist" (site ^ "::getActionProbability") r in
      let act = next_nat r in
      obs := (draw, pol, probs, act) :: !obs
    done;
    let obs = List.rev !obs in
    let exact = a land (a - 1) = 0 in
    (* O *)
    List.iter (fun (_, pol, probs, act) ->
        o_dist "random_dist" (site ^ "::getPolicy") exact pol a;
        o_dist "random_dist" (site ^ "::getActionProbability") exact probs a;
        o_agree "random_dist" site pol probs;
        if List.exists (fun x -> not (q_lt q_zero x)) pol then
          oracle_fail "random_dist" (site ^ "::getPolicy") ("an action has probability zero: " ^ str_qs pol);
        o_support "random_sample_in_support" (site ^ "::sampleAction") pol act) obs;
    (* C *)
    let an = nat_of_int a in
    if ga <> a then disagree "random_getA" (site ^ "::getA") (string_of_int ga);
    let (mlo, mhi) = rnd_bounds an in
    c_nat "rnd_bounds" (site ^ "::RandomPolicy") lo mlo;
    c_nat "rnd_bounds" (site ^ "::RandomPolicy") hi mhi;
    List.iter (fun (draw, pol, probs, act) ->
        c_vec exact "rnd_policy" (site ^ "::getPolicy") pol (rnd_policy an);
        c_vec exact "rnd_prob" (site ^ "::getActionProbability") probs (List.map (fun x -> rnd_prob an x) (range a));
        c_nat "rnd_sample" (site ^ "::sampleAction") act (rnd_sample an draw)) obs;
    (a > 1, kind)
  | "mrnd" ->
    (* round 6: MDP::RandomPolicy = BanditPolicyAdaptor<Bandit::RandomPolicy> *)
    let s = next_int c in let a = next_int c in
    let site = "MDP::RandomPolicy" in
    let gs = next_int r in let ga = next_int r in
    let lo = next_nat r in let hi = next_nat r in
    let rows = next_int r in let cols = next_int r in
    if rows < 0 || cols < 0 || rows > 1000 || cols > 1000 then
      oracle_fail "mdp_random_rows_dist" (site ^ "::getPolicy") "absurd matrix shape";
    let fin clause st = match next_x r with Fin x -> x | _ -> oracle_fail clause st "non-finite probability (nan/inf)" in
    let table = List.init rows (fun _ -> List.init cols (fun _ -> fin "mdp_random_rows_dist" (site ^ "::getPolicy"))) in
    let queries = List.init s (fun _ -> List.init a (fun _ -> fin "mdp_random_rows_dist" (site ^ "::getActionProbability"))) in
    let samples = ref [] in
    while not (at_end r) do
      let st = next_int r in let draw = next_nat r in let act = next_nat r in
      samples := (st, draw, act) :: !samples
    done;
    let samples = List.rev !samples in
    let exact = a land (a - 1) = 0 in
    (* O *)
    if rows <> s then oracle_fail "mdp_random_rows_dist" (site ^ "::getPolicy") ("table has " ^ string_of_int rows ^ " rows for S = " ^ string_of_int s);
    List.iter2 (fun row qs ->
        o_dist "mdp_random_rows_dist" (site ^ "::getPolicy") exact row a;
        o_dist "mdp_random_rows_dist" (site ^ "::getActionProbability") exact qs a;
        o_agree "mdp_random_rows_dist" site row qs) table queries;
    List.iter (fun (st, _, act) ->
        o_support "mdp_random_rows_dist" (site ^ "::sampleAction") (List.nth table st) act) samples;
    (* C *)
    let sn = nat_of_int s and an = nat_of_int a in
    if gs <> s || ga <> a then disagree "mdp_random_shape" (site ^ "::getS/getA") (string_of_int gs ^ " " ^ string_of_int ga);
    let (mlo, mhi) = rnd_bounds an in
    c_nat "rnd_bounds" (site ^ "::RandomPolicy") lo mlo;
    c_nat "rnd_bounds" (site ^ "::RandomPolicy") hi mhi;
    let mtable = mrnd_policy sn an in
    if List.length mtable <> rows then disagree "mrnd_policy" (site ^ "::getPolicy") "row count";
    List.iter2 (fun row mrow -> c_vec exact "mrnd_policy" (site ^ "::getPolicy") row mrow) table mtable;
    List.iteri (fun st qs ->
        c_vec exact "mrnd_prob" (site ^ "::getActionProbability") qs
          (List.map (fun x -> mrnd_prob sn an (nat_of_int st) x) (range a))) queries;
    List.iter (fun (st, draw, act) ->
        c_nat "mrnd_sample" (site ^ "::sampleAction") act (mrnd_sample sn an (nat_of_int st) draw)) samples;
    (a > 1 && s > 1, kind)
  | "frnd" ->
    (* round 6: Factored::Bandit::RandomPolicy and Factored::MDP::BanditPolicyAdaptor over it *)
    let av = next_nats c in
    let site = "Factored::Bandit::RandomPolicy" and msite = "Factored::MDP::BanditPolicyAdaptor" in
    let ga = next_nats r in let los = next_nats r in let his = next_nats r in
    let probs = next_qs_checked "factored_random_dist" (site ^ "::getActionProbability") r in
    let mprobs = next_qs_checked "factored_random_dist" (msite ^ "::getActionProbability") r in
    let obs = ref [] in
    while not (at_end r) do
      let d1 = next_nats r in let a1 = next_nats r in
      let p1 = (match next_x r with Fin x -> x | _ -> oracle_fail "factored_random_sample" (site ^ "::getActionProbability") "non-finite") in
      let d2 = next_nats r in let a2 = next_nats r in
      let p2 = (match next_x r with Fin x -> x | _ -> oracle_fail "factored_random_sample" (msite ^ "::getActionProbability") "non-finite") in
      obs := (d1, a1, p1, d2, a2, p2) :: !obs
    done;
    let obs = List.rev !obs in
    let space = joint av in
    let n = List.length space in
    let exact = n land (n - 1) = 0 in
    let in_space a = List.length a = List.length av && List.for_all2 (fun x m -> ioN x < ioN m) a av in
    (* O *)
    o_dist "factored_random_dist" (site ^ "::getActionProbability") exact probs n;
    o_dist "factored_random_dist" (msite ^ "::getActionProbability") exact mprobs n;
    List.iter (fun (_, a1, p1, _, a2, p2) ->
        if not (in_space a1) then oracle_fail "factored_random_sample" (site ^ "::sampleAction") ("joint action outside the space: " ^ str_nats a1);
        if not (q_lt q_zero p1) then oracle_fail "factored_random_sample" (site ^ "::sampleAction") "sampled action has probability zero";
        if not (in_space a2) then oracle_fail "factored_random_sample" (msite ^ "::sampleAction") ("joint action outside the space: " ^ str_nats a2);
        if not (q_lt q_zero p2) then oracle_fail "factored_random_sample" (msite ^ "::sampleAction") "sampled action has probability zero") obs;
    (* C *)
    if not (nat_list_eq ga av) then disagree "frnd_getA" (site ^ "::getA") (str_nats ga);
    let bounds = frnd_bounds av in
    if not (nat_list_eq los (List.map fst bounds) && nat_list_eq his (List.map snd bounds)) then
      disagree "frnd_bounds" (site ^ "::RandomPolicy") ("impl lows " ^ str_nats los ^ " highs " ^ str_nats his);
    let mp = List.map (fun a -> frnd_prob av a) space in
    c_vec exact "frnd_prob" (site ^ "::getActionProbability") probs mp;
    c_vec exact "frnd_prob" (msite ^ "::getActionProbability") mprobs mp;
    List.iter (fun (d1, a1, p1, d2, a2, p2) ->
        if not (nat_list_eq a1 (frnd_sample av d1)) then disagree "frnd_sample" (site ^ "::sampleAction") ("impl " ^ str_nats a1 ^ " draws " ^ str_nats d1);
        if not (nat_list_eq a2 (frnd_sample av d2)) then disagree "frnd_sample" (msite ^ "::sampleAction") ("impl " ^ str_nats a2 ^ " draws " ^ str_nats d2);
        c_vec exact "frnd_prob" (site ^ "::getActionProbability") [p1; p2] [frnd_prob av a1; frnd_prob av a2]) obs;
    (n > 1, kind)
  | "fsa" ->
    (* round 6: Factored::Bandit::SingleActionPolicy *)
    let av = next_nats c in
    let nu = next_int c in
    let ups = List.init nu (fun _ -> next_nats c) in
    let site = "Factored::Bandit::SingleActionPolicy" in
    let obs = ref [] in
    while not (at_end r) do
      let act = next_nats r in
      let pa = (match next_x r with Fin x -> x | _ -> oracle_fail "single_action_dist" (site ^ "::getActionProbability") "non-finite") in
      let probs = next_qs_checked "single_action_dist" (site ^ "::getActionProbability") r in
      obs := (act, pa, probs) :: !obs
    done;
    let obs = List.rev !obs in
    let space = joint av in
    let n = List.length space in
    (* O *)
    List.iter (fun (act, pa, probs) ->
        o_dist "single_action_dist" (site ^ "::getActionProbability") true probs n;
        if List.exists (fun x -> not (q_eq x q_zero || q_eq x q_one)) probs then
          oracle_fail "single_action_dist" (site ^ "::getActionProbability") ("not 0/1-valued: " ^ str_qs probs);
        if not (q_eq pa q_one) then
          oracle_fail "single_action_dist" (site ^ "::sampleAction") ("sampled action " ^ str_nats act ^ " has probability " ^ string_of_q pa)) obs;
    (* C *)
    if List.length obs <> nu + 1 then disagree "sa_update" (site ^ "::updateAction") "number of observations";
    let cur = ref (sa_init av) in
    List.iteri (fun i (act, _, probs) ->
        if i > 0 then cur := sa_update !cur (List.nth ups (i - 1));
        if not (nat_list_eq act (sa_sample !cur)) then disagree "sa_sample" (site ^ "::sampleAction") ("impl " ^ str_nats act ^ " model " ^ str_nats (sa_sample !cur));
        c_vec true "sa_prob" (site ^ "::getActionProbability") probs (List.map (fun a -> sa_prob !cur a) space)) obs;
    (n > 1 && nu > 0, kind)
  | k -> failwith ("unknown case kind " ^ k)

let () = main_loop judge
