(* ml/common/vio.ml — hand-written (trusted) glue between text case files and the numerals of
   the extracted Coq model.  Compiled once per property against that property's [Model]
   (model.ml extracted with ExtrOcamlBasic only: nat, positive, Z, Q stay Coq datatypes). *)
open Model

(* ---------- OCaml int <-> Coq numerals ---------- *)
let rec pos_of_int (n : int) : positive =
  if n <= 0 then invalid_arg "pos_of_int"
  else if n = 1 then XH
  else if n land 1 = 0 then XO (pos_of_int (n lsr 1))
  else XI (pos_of_int (n lsr 1))

let rec int_of_pos (p : positive) : int =
  match p with
  | XH -> 1
  | XO p' -> let r = int_of_pos p' in if r > max_int / 2 then failwith "int_of_pos overflow" else 2 * r
  | XI p' -> let r = int_of_pos p' in if r > (max_int - 1) / 2 then failwith "int_of_pos overflow" else 2 * r + 1

let z_of_int (n : int) : z =
  if n = 0 then Z0 else if n > 0 then Zpos (pos_of_int n) else Zneg (pos_of_int (- n))

let int_of_z (x : z) : int =
  match x with Z0 -> 0 | Zpos p -> int_of_pos p | Zneg p -> - (int_of_pos p)

let nat_of_int (n : int) : nat =
  let rec go acc k = if k <= 0 then acc else go (S acc) (k - 1) in go O n

let int_of_nat (n : nat) : int =
  let rec go acc n = match n with O -> acc | S m -> go (acc + 1) m in go 0 n

let z_ten = z_of_int 10

(* decimal string (optional sign) -> Z, any size *)
let z_of_string (s : string) : z =
  let n = String.length s in
  if n = 0 then failwith "z_of_string: empty";
  let neg, start = if s.[0] = '-' then true, 1 else if s.[0] = '+' then false, 1 else false, 0 in
  if start >= n then failwith ("z_of_string: " ^ s);
  let acc = ref Z0 in
  for i = start to n - 1 do
    let c = s.[i] in
    if c < '0' || c > '9' then failwith ("z_of_string: " ^ s);
    acc := vio_z_add (vio_z_mul !acc z_ten) (z_of_int (Char.code c - 48))
  done;
  if neg then vio_z_opp !acc else !acc

let string_of_z (x : z) : string =
  match x with
  | Z0 -> "0"
  | _ ->
    let neg, a = (match x with Zneg p -> true, Zpos p | _ -> false, x) in
    let buf = Buffer.create 32 in
    let rec go a =
      match a with
      | Z0 -> ()
      | _ -> let (qq, r) = vio_z_div_eucl a z_ten in
             go qq; Buffer.add_char buf (Char.chr (48 + int_of_z r))
    in
    go a;
    (if neg then "-" else "") ^ Buffer.contents buf

let q_of_ints (n : int) (d : int) : q = vio_qred (vio_qmake (z_of_int n) (pos_of_int d))
let q_of_int (n : int) : q = vio_qmake (z_of_int n) XH
let q_zero = q_of_int 0
let q_one = q_of_int 1

let pos_of_z (x : z) : positive = match x with Zpos p -> p | _ -> failwith "pos_of_z"

(* 2^k as positive *)
let rec pos_pow2 (k : int) : positive = if k <= 0 then XH else XO (pos_pow2 (k - 1))

(* exact value of a finite IEEE double *)
let q_of_float (f : float) : q =
  if Float.is_nan f || Float.is_integer f = false && Float.abs f = Float.infinity then failwith "q_of_float: non-finite";
  if Float.abs f = Float.infinity then failwith "q_of_float: non-finite";
  if f = 0.0 then q_zero else begin
    let (m, e) = Float.frexp f in            (* f = m * 2^e, 0.5 <= |m| < 1 *)
    let mi = Int64.to_int (Int64.of_float (Float.ldexp m 53)) in   (* |mi| < 2^53, exact *)
    let e' = e - 53 in                        (* f = mi * 2^e' *)
    if e' >= 0 then
      vio_qred (vio_qmake (vio_z_mul (z_of_int mi) (Zpos (pos_pow2 e'))) XH)
    else
      vio_qred (vio_qmake (z_of_int mi) (pos_pow2 (- e')))
  end

type xnum = Fin of q | NaN | PInf | NInf

let xnum_of_float (f : float) : xnum =
  if Float.is_nan f then NaN
  else if f = Float.infinity then PInf
  else if f = Float.neg_infinity then NInf
  else Fin (q_of_float f)

(* token -> number.  Accepted: decimal integer, n/d, hex float (0x…p…), nan, inf, -inf,
   and plain decimal floats (parsed by OCaml's float_of_string = strtod, then exact). *)
let xnum_of_token (s : string) : xnum =
  let ls = String.lowercase_ascii s in
  if ls = "nan" || ls = "-nan" || ls = "+nan" then NaN
  else if ls = "inf" || ls = "+inf" || ls = "infinity" then PInf
  else if ls = "-inf" || ls = "-infinity" then NInf
  else match String.index_opt s '/' with
    | Some i ->
      let n = z_of_string (String.sub s 0 i) in
      let d = z_of_string (String.sub s (i + 1) (String.length s - i - 1)) in
      Fin (vio_qred (vio_qmake n (pos_of_z d)))
    | None ->
      let is_int = (let ok = ref (String.length s > 0) in
                    String.iteri (fun i c -> if not ((c >= '0' && c <= '9') || (i = 0 && (c = '-' || c = '+'))) then ok := false) s; !ok) in
      if is_int then Fin (vio_qmake (z_of_string s) XH)
      else xnum_of_float (float_of_string s)

let q_of_token (s : string) : q =
  match xnum_of_token s with Fin x -> x | _ -> failwith ("q_of_token: non-finite " ^ s)

let float_of_z (x : z) : float =
  (* approximate, for messages and tolerances only *)
  let rec fp p = match p with XH -> 1.0 | XO p' -> 2.0 *. fp p' | XI p' -> 2.0 *. fp p' +. 1.0 in
  match x with Z0 -> 0.0 | Zpos p -> fp p | Zneg p -> -. (fp p)

let float_of_q (x : q) : float = float_of_z (vio_qnum x) /. float_of_z (Zpos (vio_qden x))

let string_of_q (x : q) : string =
  let x = vio_qred x in
  match vio_qden x with
  | XH -> string_of_z (vio_qnum x)
  | d -> string_of_z (vio_qnum x) ^ "/" ^ string_of_z (Zpos d)

let q_cmp (a : q) (b : q) : int = match vio_qcompare a b with Eq -> 0 | Lt -> -1 | Gt -> 1
let q_eq a b = q_cmp a b = 0
let q_le a b = q_cmp a b <= 0
let q_lt a b = q_cmp a b < 0
let q_abs a = if q_lt a q_zero then vio_qminus q_zero a else a
let q_add = vio_qplus
let q_sub = vio_qminus
let q_mul = vio_qmult
let q_max a b = if q_le a b then b else a

(* |a-b| <= atol + rtol*max(|a|,|b|) decided exactly *)
let q_close ?(atol = q_of_ints 1 1000000000) ?(rtol = q_of_ints 1 1000000000) (a : q) (b : q) : bool =
  q_le (q_abs (q_sub a b)) (q_add atol (q_mul rtol (q_max (q_abs a) (q_abs b))))

(* ---------- lists ---------- *)
let rec list_of_coq l = l   (* ExtrOcamlBasic maps Coq list to OCaml list *)

(* ---------- token cursor ---------- *)
type cursor = { toks : string array; mutable pos : int }

let cursor_of_line (line : string) : cursor =
  let l = String.split_on_char ' ' line |> List.filter (fun s -> s <> "") in
  { toks = Array.of_list l; pos = 0 }

let at_end c = c.pos >= Array.length c.toks
let peek c = if at_end c then failwith "cursor: unexpected end" else c.toks.(c.pos)
let next c = let t = peek c in c.pos <- c.pos + 1; t
let next_int c = let t = next c in (try int_of_string t with _ -> failwith ("cursor: int expected, got " ^ t))
let next_nat c = nat_of_int (next_int c)
let next_q c = q_of_token (next c)
let next_x c = xnum_of_token (next c)
let expect c w = let t = next c in if t <> w then failwith ("cursor: expected " ^ w ^ " got " ^ t)
let next_list c (f : cursor -> 'a) : 'a list =
  let n = next_int c in
  let rec go k acc = if k = 0 then List.rev acc else go (k - 1) (f c :: acc) in go n []
let next_nats c = next_list c next_nat
let next_qs c = next_list c next_q
let next_ints c = next_list c next_int
let rest c = let r = Array.sub c.toks c.pos (Array.length c.toks - c.pos) in c.pos <- Array.length c.toks; Array.to_list r

let str_nats (l : nat list) = String.concat " " (List.map (fun n -> string_of_int (int_of_nat n)) l)
let str_ints (l : int list) = String.concat " " (List.map string_of_int l)
let str_qs (l : q list) = String.concat " " (List.map string_of_q l)

(* ---------- file helpers ---------- *)
let read_lines (path : string) : string list =
  let ic = open_in path in
  let rec go acc = match input_line ic with
    | l -> go (l :: acc)
    | exception End_of_file -> close_in ic; List.rev acc in
  go []

(* Case file:   "C <id> <tokens…>"      Impl file:  "R <id> <tokens…>"
   Verdict out: "V <id> OK|DISAGREE|ORACLE <nt:0/1> <clause> <site> <detail…>" *)
let load_keyed (prefix : string) (path : string) : (int, string) Hashtbl.t * int list =
  let h = Hashtbl.create 1024 in
  let order = ref [] in
  List.iter (fun l ->
      let n = String.length l in
      if n > 2 && String.sub l 0 2 = prefix ^ " " then begin
        let rest = String.sub l 2 (n - 2) in
        match String.index_opt rest ' ' with
        | Some i ->
          let id = int_of_string (String.sub rest 0 i) in
          Hashtbl.replace h id (String.sub rest (i + 1) (String.length rest - i - 1));
          order := id :: !order
        | None ->
          let id = int_of_string rest in Hashtbl.replace h id ""; order := id :: !order
      end) (read_lines path);
  (h, List.rev !order)

type verdict =
  | Ok_ of bool * string                    (* nontrivial?, tag *)
  | Disagree of string * string * string    (* clause (correspondence name), site, detail *)
  | Oracle of string * string * string      (* violated clause, site, detail *)

exception Disagreement of string * string * string
exception OracleFail of string * string * string

let disagree clause site detail = raise (Disagreement (clause, site, detail))
let oracle_fail clause site detail = raise (OracleFail (clause, site, detail))

(* run [judge case_cursor impl_cursor] for every case; print one verdict line per case *)
let main_loop (judge : int -> cursor -> cursor -> bool * string) : unit =
  if Array.length Sys.argv < 3 then (prerr_endline "usage: driver cases.txt impl.txt"; exit 2);
  let (cases, order) = load_keyed "C" Sys.argv.(1) in
  let (impl, _) = load_keyed "R" Sys.argv.(2) in
  List.iter (fun id ->
      let cl = Hashtbl.find cases id in
      let v =
        match Hashtbl.find_opt impl id with
        | None -> Disagree ("impl_output_missing", "harness", "no R line")
        | Some il ->
          (try let (nt, tag) = judge id (cursor_of_line cl) (cursor_of_line il) in Ok_ (nt, tag)
           with
           | Disagreement (c, s, d) -> Disagree (c, s, d)
           | OracleFail (c, s, d) -> Oracle (c, s, d)
           | (Failure _ | Invalid_argument _ | Not_found) as ex ->
             (* a driver that cannot read the answer because the implementation printed a non-finite number
                where a number was expected: that is a failing input, not a broken correspondence *)
             let m = (match ex with Failure m | Invalid_argument m -> m | _ -> "Not_found") in
             let toks = String.split_on_char ' ' il in
             let nonfinite t = (match String.lowercase_ascii t with "nan" | "-nan" | "inf" | "-inf" | "+inf" -> true | _ -> false) in
             (match List.find_opt nonfinite toks with
              | Some t -> Oracle ("finite_outputs", "harness_output", "the implementation returned " ^ t ^ " where a finite number is required (driver: " ^ m ^ ")")
              | None -> Disagree ("driver_failure", "driver", m))) in
      match v with
      | Ok_ (nt, tag) -> Printf.printf "V %d OK %d %s\n" id (if nt then 1 else 0) tag
      | Disagree (c, s, d) -> Printf.printf "V %d DISAGREE 1 %s %s %s\n" id c s d
      | Oracle (c, s, d) -> Printf.printf "V %d ORACLE 1 %s %s %s\n" id c s d)
    order
