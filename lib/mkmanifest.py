#!/usr/bin/env python3
"""lib/mkmanifest.py — regenerates MANIFEST.json from props/*.py (claimed) and manifest_meta.json."""
import json, os, sys, glob
ROOT = os.path.dirname(os.path.dirname(os.path.abspath(__file__)))
sys.path.insert(0, os.path.join(ROOT, "lib"))
import vcheck
meta = json.load(open(os.path.join(ROOT, "manifest_meta.json")))
props = [json.loads(l) for l in open(os.path.join(ROOT, "properties.jsonl"))]
claimed = [p for p in vcheck.all_props() if os.path.exists(os.path.join(ROOT, "coq", "theories", "Properties_%s.v" % p))
           and p in meta.get("claimed", [])]
checks = []
for pid in claimed:
    m = meta["checks"].get(pid, {})
    checks.append({
        "property_id": pid,
        "quick_cmd": "bin/check %s --tier quick" % pid,
        "thorough_cmd": "bin/check %s --tier thorough" % pid,
        "evidence_file": "/verif/evidence/%s.json" % pid,
        "replay_cmd_template": "bin/check %s --replay {path}" % pid,
        "engine": "rocq-proof+correspondence",
        "level_claimed": {"category": "proof", "text": m.get("text", "Rocq theorems about a hand-written executable model of the anchored code, tied to /repo by an extracted-model vs C++ correspondence run on every check."), "design_ref": "DESIGN.md §4 " + pid},
        "level_note": m.get("note", "Trusted: Coq kernel, extraction (ExtrOcamlBasic only), hand-written OCaml/C++/Python glue, g++; the model is hand-written and tied to the code only by the correspondence run."),
        "technique": m.get("technique", "Rocq (Coq 8.16) theorem over executable Gallina model + extracted-model/C++ differential correspondence + Coq-extracted spec oracle"),
    })
na = []
for p in props:
    if p["id"] not in claimed:
        na.append({"property_id": p["id"], "reason": meta.get("unclaimed", {}).get(p["id"], "not yet built: model, theorems and correspondence for this property are not committed yet (planned, DESIGN.md §4/§7)")})
man = {
    "version": 1,
    "setup_cmd": "bin/check --setup",
    "hooks": {"guard": "AITOOLBOX_VERIF", "enable": "harness objects are compiled from /repo's working tree with -DAITOOLBOX_VERIF (lib/vcheck.py CXXFLAGS)",
              "baseline_off_cmd": "cmake --build /repo/_build -j16 && ctest --test-dir /repo/_build -j8 --timeout 900",
              "source_commits": meta.get("hook_commits", []), "add_only": True},
    "engines": [
        {"name": "coq", "path": "coq/theories", "serves_properties": claimed, "kind_free_text": "Rocq/Coq 8.16.1 development: Base, per-property Model/Spec/Proofs, Properties_<id>.v"},
        {"name": "ml", "path": "ml", "serves_properties": claimed, "kind_free_text": "extracted models + OCaml drivers (correspondence and oracle)"},
        {"name": "harness", "path": "harness", "serves_properties": claimed, "kind_free_text": "C++ drivers compiled against /repo's current tree"},
        {"name": "check", "path": "bin/check", "serves_properties": claimed, "kind_free_text": "pipeline: proof build, extraction, harness build, generation, comparison, verdicts, evidence"}],
    "checks": checks,
    "notes": meta.get("notes", ""),
    "not_applicable": na,
}
json.dump(man, open(os.path.join(ROOT, "MANIFEST.json"), "w"), indent=1)
print("claimed:", claimed)
