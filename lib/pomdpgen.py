"""lib/pomdpgen.py — shared exact (dyadic) MDP/POMDP generators for the correspondence checks."""
from fractions import Fraction as F

def L(xs):
    xs = list(xs)
    return "%d %s" % (len(xs), " ".join(map(str, xs))) if xs else "0"

def q(x):
    x = F(x)
    return str(x.numerator) if x.denominator == 1 else "%d/%d" % (x.numerator, x.denominator)

def Qs(xs):
    return " ".join(q(x) for x in xs)

def dyadic_dist(rng, n, bits=3, sparse=0.3):
    """distribution over n outcomes with probabilities k/2^bits; zeros with prob `sparse`"""
    tot = 1 << bits
    while True:
        w = [0 if rng.random() < sparse else rng.randint(1, tot) for _ in range(n)]
        if sum(w) == 0:
            w[rng.randrange(n)] = 1
        # distribute tot units proportionally, deterministically
        cnt = [0] * n
        idx = [i for i in range(n) if w[i] > 0]
        for _ in range(tot):
            cnt[rng.choice(idx)] += 1
        if sum(cnt) == tot:
            return [F(c, tot) for c in cnt]

def gen_mdp(rng, S, A, gammas=(F(1, 2), F(3, 4)), rew=None):
    kind = rng.choice(["dense", "det", "absorbing", "selfloop", "dense"])
    P = []
    for a in range(A):
        rows = []
        for s in range(S):
            if kind == "det" or (kind == "absorbing" and s == S - 1):
                t = s if kind == "absorbing" else rng.randrange(S)
                rows.append([F(1) if i == t else F(0) for i in range(S)])
            elif kind == "selfloop" and rng.random() < 0.5:
                r = dyadic_dist(rng, S, 2); r = [x / 2 for x in r]; r[s] += F(1, 2); rows.append(r)
            else:
                rows.append(dyadic_dist(rng, S, rng.choice([1, 2, 3])))
        P.append(rows)
    rk = rew or rng.choice(["pos", "neg", "mixed", "mixed", "ties", "frac"])
    def rv():
        if rk == "pos": return F(rng.randint(0, 8))
        if rk == "neg": return F(-rng.randint(0, 8))
        if rk == "ties": return F(rng.choice([0, 1, 1, 2]))
        if rk == "frac": return F(rng.randint(-16, 16), 4)
        return F(rng.randint(-6, 6))
    R = [[rv() for a in range(A)] for s in range(S)]
    if rng.random() < 0.15 and A >= 2:      # duplicate action
        P[1] = [list(r) for r in P[0]]
        for s in range(S): R[s][1] = R[s][0]
    return dict(S=S, A=A, P=P, R=R, g=rng.choice(list(gammas)), kind=kind, rk=rk)

def gen_pomdp(rng, S, A, O, **kw):
    m = gen_mdp(rng, S, A, **kw)
    ok = rng.choice(["noisy", "det", "noisy", "impossible"])
    Ob = []
    for a in range(A):
        rows = []
        for s1 in range(S):
            if ok == "det":
                t = rng.randrange(O); rows.append([F(1) if o == t else F(0) for o in range(O)])
            elif ok == "impossible" and O >= 2:
                # observation O-1 impossible under action 0
                if a == 0:
                    r = dyadic_dist(rng, O - 1, 2) + [F(0)]
                else:
                    r = dyadic_dist(rng, O, 2)
                rows.append(r)
            else:
                rows.append(dyadic_dist(rng, O, rng.choice([1, 2])))
        Ob.append(rows)
    m["O"] = O; m["Ob"] = Ob; m["ok"] = ok
    return m

def fmt_mdp(m):
    toks = [str(m["S"]), str(m["A"]), q(m["g"])]
    for a in range(m["A"]):
        for s in range(m["S"]):
            toks += [q(x) for x in m["P"][a][s]]
    for s in range(m["S"]):
        toks += [q(x) for x in m["R"][s]]
    return " ".join(toks)

def fmt_pomdp(m):
    toks = [str(m["S"]), str(m["A"]), str(m["O"]), q(m["g"])]
    for a in range(m["A"]):
        for s in range(m["S"]):
            toks += [q(x) for x in m["P"][a][s]]
    for s in range(m["S"]):
        toks += [q(x) for x in m["R"][s]]
    for a in range(m["A"]):
        for s1 in range(m["S"]):
            toks += [q(x) for x in m["Ob"][a][s1]]
    return " ".join(toks)

def gen_beliefs(rng, S, n):
    """corners, face midpoints, centroid-ish, random dyadic interior points"""
    out = []
    for k in range(n):
        r = rng.random()
        if r < 0.25:
            i = rng.randrange(S); out.append([F(1) if j == i else F(0) for j in range(S)])
        elif r < 0.45 and S >= 2:
            i, j = rng.sample(range(S), 2); out.append([F(1, 2) if t in (i, j) else F(0) for t in range(S)])
        else:
            out.append(dyadic_dist(rng, S, 3, sparse=0.2))
    return out
