#!/usr/bin/env python3
"""lib/mkdesigntables.py — regenerates the generated parts of DESIGN.md (between <!-- GEN:x --> markers):
   findings (fixed / known) from known_findings*.json and seeded changes from seeded/*/meta.json."""
import json, glob, os, re
ROOT = os.path.dirname(os.path.dirname(os.path.abspath(__file__)))
k = json.load(open(os.path.join(ROOT, "known_findings.json")))["findings"]
known = []
for f in sorted(glob.glob(os.path.join(ROOT, "known_findings.d", "*.json"))):
    known += json.load(open(f))["findings"]
def esc(s): return s.replace("|", "\\|").replace("\n", " ")
# ---- fixed: group by commit
byc = {}
for e in k:
    if e.get("status") == "fixed":
        byc.setdefault(e["commit"], []).append(e)
subj = {}
import subprocess
for c in byc:
    try: subj[c] = subprocess.run(["git", "-C", "/repo", "log", "-1", "--format=%s", c], capture_output=True, text=True).stdout.strip()
    except Exception: subj[c] = ""
order = subprocess.run(["git", "-C", "/repo", "log", "--reverse", "--format=%h"], capture_output=True, text=True).stdout.split()
rows = []
for c in sorted(byc, key=lambda c: next((i for i, h in enumerate(order) if h.startswith(c[:7]) or c.startswith(h)), 999)):
    es = byc[c]
    props = sorted({e["property"] for e in es})
    clauses = sorted({e["clause"] for e in es})
    n = len(es)
    rows.append("| `%s` | %s | %s | %s%s |" % (c, esc(subj[c]), ", ".join(props), ", ".join("`%s`" % x for x in clauses[:4]), " …(%d entries)" % n if n > 4 else ""))
fixed_md = "| /repo commit | subject | property | oracle clauses that exposed it |\n|---|---|---|---|\n" + "\n".join(rows)
known_md = "| property | clause @ site | what (identified by) |\n|---|---|---|\n" + "\n".join(
    "| %s | `%s` @ `%s` | %s |" % (e["property"], e["clause"], esc(e["site"]), esc(e["what"])[:420]) for e in known if e.get("status") == "known")
# ---- seeded
srows = []
for d in sorted(glob.glob(os.path.join(ROOT, "seeded", "*"))):
    mp = os.path.join(d, "meta.json")
    if not os.path.exists(mp): continue
    m = json.load(open(mp))
    cc = m.get("confirmed_by_coordinator", {})
    first = cc.get("violations", [])
    now = m.get("violations_now")
    if m.get("detected") and first and cc.get("check_rc") == "1":
        status = "caught at first run: " + ", ".join("`%s`" % v for v in first[:3])
    elif m.get("detected_now"):
        status = "MISSED at first run; caught after strengthening: " + ", ".join("`%s`" % v for v in (now or [])[:3])
    elif m.get("detected"):
        status = "caught: " + ", ".join("`%s`" % v for v in (now or first)[:3])
    else:
        status = "**not caught**"
    srows.append("| %s | %s | %s | %s |" % (os.path.basename(d), esc(m.get("summary", ""))[:260], esc(m.get("needs", ""))[:200], status))
seed_md = "| seed | change | needs | outcome of `bin/check` |\n|---|---|---|---|\n" + "\n".join(srows)
p = os.path.join(ROOT, "DESIGN.md")
s = open(p).read()
for name, md in (("fixed", fixed_md), ("known", known_md), ("seeded", seed_md)):
    a, b = "<!-- GEN:%s -->" % name, "<!-- /GEN:%s -->" % name
    if a in s:
        s = s[:s.index(a) + len(a)] + "\n" + md + "\n" + s[s.index(b):]
open(p, "w").write(s)
print("fixed commits:", len(rows), "known:", len([e for e in known if e.get('status')=='known']), "seeds:", len(srows))
