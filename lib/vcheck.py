#!/usr/bin/env python3
"""lib/vcheck.py — the check pipeline shared by every property (DESIGN.md §2).

   P  proof:          make the property's .vo files (full build), re-check Properties_<id>.v,
                      read its Print Assumptions output, scan for forbidden constructs
   C  correspondence: extracted model (OCaml) vs C++ built from /repo's *current* tree
   O  oracle:         Coq-extracted spec checkers applied to the implementation's outputs

   Verdict lines follow the brief:  VIOLATION property=<id> replay=<path> [no-failing-input-found]
                                    KNOWN-FINDING: property=<id> <what>
"""
import os, sys, re, json, time, tempfile, glob, hashlib, subprocess, random, fcntl, importlib.util, shutil, signal, threading
from concurrent.futures import ThreadPoolExecutor

ROOT = os.path.dirname(os.path.dirname(os.path.abspath(__file__)))
REPO = os.environ.get("VERIF_REPO", "/repo")
BUILD = os.path.join(ROOT, ".build")
COQ = os.path.join(ROOT, "coq")
TH = os.path.join(COQ, "theories")
NCPU = int(os.environ.get("VERIF_JOBS", "16"))
GUARD = "AITOOLBOX_VERIF"
CXX = os.environ.get("VERIF_CXX", "g++")
CXXFLAGS = ["-std=c++20", "-O1", "-DNDEBUG", "-D" + GUARD, "-DBOOST_ALLOW_DEPRECATED_HEADERS",
            "-DBOOST_BIND_GLOBAL_PLACEHOLDERS", "-w",
            # every Eigen matrix/vector the library allocates without a value starts as NaN instead of whatever the
            # heap holds: a read of uninitialised coefficients shows up as a NaN in the outputs of EVERY check
            # (deterministically), not only under the sanitizers; code that writes before reading is unaffected
            "-DEIGEN_INITIALIZE_MATRICES_BY_NAN",
            "-I" + os.path.join(REPO, "include"), "-I/usr/include/eigen3",
            "-I" + os.path.join(ROOT, "harness", "common")]
CXXFLAGS += os.environ.get("VERIF_EXTRA_DEFS", "").split()     # experiments (e.g. -DEIGEN_INITIALIZE_MATRICES_BY_NAN)
ASANFLAGS = ["-g", "-fsanitize=address,undefined", "-fno-sanitize-recover=all", "-fno-omit-frame-pointer"]
LP_LINK = ["/usr/lib/liblpsolve55.a", "-lcolamd", "-ldl"]

FORBIDDEN = [r"\bAdmitted\b", r"\badmit\b", r"\bAxiom\b", r"\bAxioms\b", r"\bParameter\b", r"\bParameters\b",
             r"\bConjecture\b", r"Admit\s+Obligations", r"Unset\s+Guard\s+Checking", r"bypass_check",
             r"type-in-type", r"Unset\s+Universe\s+Checking", r"Unset\s+Positivity\s+Checking",
             r"impredicative-set", r"\bnative_compute\b", r"\bgive_up\b"]

# standard-library axioms a property may rely on if (and only if) its descriptor allows them
STDLIB_AXIOMS = {
    "ClassicalDedekindReals.sig_forall_dec", "ClassicalDedekindReals.sig_not_dec",
    "FunctionalExtensionality.functional_extensionality_dep", "Classical_Prop.classic",
    "ProofIrrelevance.proof_irrelevance", "Eqdep.Eq_rect_eq.eq_rect_eq", "JMeq.JMeq_eq",
}


def log(*a):
    print(*a, file=sys.stderr, flush=True)


def sha(*parts):
    h = hashlib.sha256()
    for p in parts:
        if isinstance(p, str):
            p = p.encode()
        h.update(p)
        h.update(b"\0")
    return h.hexdigest()[:20]


def file_sha(path):
    with open(path, "rb") as f:
        return hashlib.sha256(f.read()).hexdigest()


def tree_sha(paths, exts=None):
    h = hashlib.sha256()
    files = []
    for p in paths:
        if os.path.isdir(p):
            for d, _, fs in os.walk(p):
                for f in fs:
                    if exts is None or os.path.splitext(f)[1] in exts:
                        files.append(os.path.join(d, f))
        elif os.path.exists(p):
            files.append(p)
    for f in sorted(files):
        h.update(f.encode()); h.update(b"\0"); h.update(file_sha(f).encode())
    return h.hexdigest()[:20]


class Lock:
    def __init__(self, name):
        os.makedirs(BUILD, exist_ok=True)
        self.path = os.path.join(BUILD, name + ".lock")

    def __enter__(self):
        self.f = open(self.path, "w")
        fcntl.flock(self.f, fcntl.LOCK_EX)
        return self

    def __exit__(self, *a):
        fcntl.flock(self.f, fcntl.LOCK_UN)
        self.f.close()


def load_prop(pid):
    path = os.path.join(ROOT, "props", pid + ".py")
    spec = importlib.util.spec_from_file_location("prop_" + pid, path)
    m = importlib.util.module_from_spec(spec)
    spec.loader.exec_module(m)
    m.ID = pid
    return m


def all_props():
    return sorted(os.path.basename(p)[:-3] for p in glob.glob(os.path.join(ROOT, "props", "C*.py")))


# ------------------------------------------------------------------ P: Coq ---------------------

def strip_coq_comments(s):
    out = []; depth = 0; i = 0; n = len(s); instr = False
    while i < n:
        if depth == 0 and s[i] == '"':
            instr = not instr; out.append(s[i]); i += 1; continue
        if not instr and s.startswith("(*", i):
            depth += 1; i += 2; continue
        if not instr and depth > 0 and s.startswith("*)", i):
            depth -= 1; i += 2; continue
        if depth == 0:
            out.append(s[i])
        i += 1
    return "".join(out)


def coq_files_for(pid):
    fs = sorted(glob.glob(os.path.join(TH, "Base", "*.v"))) + sorted(glob.glob(os.path.join(TH, pid, "*.v")))
    fs.append(os.path.join(TH, "Properties_%s.v" % pid))
    return [f for f in fs if os.path.exists(f)]


def gen_coqproject():
    vs = []
    for d, _, fs in os.walk(TH):
        for f in fs:
            if f.endswith(".v") and f != "Extract.v":
                vs.append(os.path.relpath(os.path.join(d, f), COQ))
    content = "-Q theories AIT\n-arg -w -arg -notation-overridden,-deprecated-hint-without-locality,-deprecated-instance-without-locality\n" + "\n".join(sorted(vs)) + "\n"
    p = os.path.join(COQ, "_CoqProject")
    old = open(p).read() if os.path.exists(p) else None
    if old != content or not os.path.exists(os.path.join(COQ, "Makefile")):
        with open(p, "w") as f:
            f.write(content)
        subprocess.run(["coq_makefile", "-f", "_CoqProject", "-o", "Makefile"], cwd=COQ, check=True,
                       stdout=subprocess.DEVNULL, stderr=subprocess.DEVNULL)


def scan_forbidden(files):
    bad = []
    for f in files:
        src = strip_coq_comments(open(f).read())
        for pat in FORBIDDEN:
            for m in re.finditer(pat, src):
                line = src.count("\n", 0, m.start()) + 1
                bad.append("%s:%d: %s" % (os.path.relpath(f, ROOT), line, m.group(0)))
        # Variable / Hypothesis / Context outside any Section declare axioms
        depth = 0
        for ln, l in enumerate(src.split("\n"), 1):
            t = l.strip()
            if re.match(r"Section\s+\w+\s*\.", t):
                depth += 1
            elif re.match(r"End\s+\w+\s*\.", t) and depth > 0:
                depth -= 1
            elif depth == 0 and re.match(r"(Variable|Variables|Hypothesis|Hypotheses|Context)\b", t):
                bad.append("%s:%d: %s outside a Section" % (os.path.relpath(f, ROOT), ln, t.split()[0]))
    return bad


STMT_RE = re.compile(r"^\s*(?:Local\s+|Global\s+|#\[[^\]]*\]\s*)*(Theorem|Lemma|Corollary|Proposition|Fact|Remark|Example)\s+([A-Za-z_][\w']*)", re.M)


def count_obligations(files):
    names = []
    qed = 0
    for f in files:
        src = strip_coq_comments(open(f).read())
        names += [m.group(2) for m in STMT_RE.finditer(src)]
        qed += len(re.findall(r"\b(Qed|Defined)\s*\.", src))
    return names, qed


def parse_assumptions(output):
    """-> dict theorem -> list of axiom names ([] = closed).  Parses coqc output of a file that
       runs `Print Assumptions X.` after a line `(*PA*) ` marker we cannot see; so we pair by order."""
    blocks = []
    cur = None
    for l in output.split("\n"):
        if l.startswith("Closed under the global context"):
            blocks.append([]); cur = None
        elif l.startswith("Axioms:"):
            cur = []; blocks.append(cur)
        elif cur is not None:
            # "name : type" or, when the type is long, the name alone on its line followed by an indented "  : type"
            m = re.match(r"^([A-Za-z_][\w.']*)\s*(:|$)", l)
            if m:
                cur.append(m.group(1))
            elif l.strip() == "" or not l.startswith(" "):
                if l.strip() != "" and not re.match(r"^\s", l):
                    cur = None
    return blocks


def coq_build(pid, prop, timeout=1500):
    """Full .vo build of everything Properties_<id>.v depends on; re-checks that file on every run.
       returns dict(ok, log, assumptions, theorems, forbidden, obligations, discharged)"""
    res = dict(ok=False, log="", assumptions={}, forbidden=[], obligations=0, discharged=0, theorems=[], failed_file=None)
    files = coq_files_for(pid)
    pf = os.path.join(TH, "Properties_%s.v" % pid)
    if not os.path.exists(pf):
        res["log"] = "missing " + pf
        return res
    res["forbidden"] = scan_forbidden(files)
    with Lock("coq"):
        gen_coqproject()
        vo = os.path.join(TH, "Properties_%s.vo" % pid)
        if os.path.exists(vo):
            os.remove(vo)
        t0 = time.time()
        # every file of the property (also those only the extraction uses) + the property theorems
        targets = ["theories/Properties_%s.vo" % pid] + [os.path.relpath(f, COQ)[:-2] + ".vo"
                                                         for f in sorted(glob.glob(os.path.join(TH, pid, "*.v"))) + sorted(glob.glob(os.path.join(TH, "Base", "*.v")))
                                                         if os.path.basename(f) != "Extract.v"]
        p = subprocess.run(["timeout", str(timeout), "make", "-j%d" % NCPU] + targets,
                           cwd=COQ, stdout=subprocess.PIPE, stderr=subprocess.STDOUT, text=True)
        res["log"] = p.stdout
        res["coq_wall_s"] = round(time.time() - t0, 2)
        built = p.returncode == 0 and os.path.exists(vo)
    src = strip_coq_comments(open(pf).read())
    thms = [m.group(2) for m in STMT_RE.finditer(src)]
    pas = re.findall(r"Print\s+Assumptions\s+([\w.']+)\s*\.", src)
    res["theorems"] = thms
    names, qed = count_obligations(files)
    res["obligations"] = len(names)
    if not built:
        m = re.search(r'File "([^"]+)", line (\d+)', p.stdout)
        res["failed_file"] = (m.group(1) + ":" + m.group(2)) if m else "?"
        # what did compile: count statements of files whose .vo exists
        done = [f for f in files if os.path.exists(f[:-2] + ".vo")]
        res["discharged"] = len(count_obligations(done)[0])
        return res
    blocks = parse_assumptions(p.stdout)
    # the make log interleaves files; only Properties file prints assumptions by convention
    if len(blocks) >= len(pas):
        blocks = blocks[-len(pas):] if pas else []
        res["assumptions"] = dict(zip(pas, blocks))
    else:
        res["assumptions"] = None
    res["discharged"] = len(names) if qed >= len(names) else qed
    res["ok"] = True
    # every theorem of the Properties file must have its Print Assumptions
    res["unprinted"] = [t for t in thms if t not in pas and not t.startswith("ex_")]
    return res


def coqchk(pid, timeout=1800):
    p = subprocess.run(["timeout", str(timeout), "coqchk", "-o", "-silent", "-Q", "theories", "AIT", "AIT.Properties_%s" % pid],
                       cwd=COQ, stdout=subprocess.PIPE, stderr=subprocess.STDOUT, text=True)
    return p.returncode == 0, p.stdout


# ------------------------------------------------------------------ extraction + driver -------

def ml_build(pid, prop):
    ex = os.path.join(TH, pid, "Extract.v")
    drv = os.path.join(ROOT, "ml", pid, "driver.ml")
    common = os.path.join(ROOT, "ml", "common", "vio.ml")
    extra = sorted(glob.glob(os.path.join(ROOT, "ml", pid, "*.ml")))
    extra = [e for e in extra if os.path.basename(e) != "driver.ml"]
    key = tree_sha([os.path.join(TH, "Base"), os.path.join(TH, pid), os.path.join(ROOT, "ml", "common"),
                    os.path.join(ROOT, "ml", pid)], exts={".v", ".ml"})
    out = os.path.join(BUILD, "ml", pid, key)
    exe = os.path.join(out, "driver")
    if os.path.exists(exe):
        return True, exe, ""
    with Lock("ml_" + pid):
        if os.path.exists(exe):
            return True, exe, ""
        shutil.rmtree(os.path.join(BUILD, "ml", pid), ignore_errors=True)
        os.makedirs(out, exist_ok=True)
        p = subprocess.run(["timeout", "600", "coqc", "-Q", TH, "AIT", "-w", "-extraction,-notation-overridden", "-o", os.path.join(out, "Extract.vo"), ex],
                           cwd=out, stdout=subprocess.PIPE, stderr=subprocess.STDOUT, text=True)
        if p.returncode != 0 or not os.path.exists(os.path.join(out, "model.ml")):
            return False, None, "extraction failed:\n" + p.stdout
        for f in [common] + extra + [drv]:
            shutil.copy(f, out)
        srcs = ["model.mli", "model.ml", "vio.ml"] + [os.path.basename(e) for e in extra] + ["driver.ml"]
        p = subprocess.run(["ocamlfind", "ocamlopt", "-O3", "-w", "-a", "-I", "."] + srcs + ["-o", "driver"], cwd=out,
                           stdout=subprocess.PIPE, stderr=subprocess.STDOUT, text=True)
        if p.returncode != 0:
            # ocamlopt without flambda rejects -O3 silently; retry plainly on any failure
            p = subprocess.run(["ocamlfind", "ocamlopt", "-w", "-a", "-I", "."] + srcs + ["-o", "driver"], cwd=out,
                               stdout=subprocess.PIPE, stderr=subprocess.STDOUT, text=True)
        if p.returncode != 0:
            return False, None, "driver build failed:\n" + p.stdout
    return True, exe, ""


# ------------------------------------------------------------------ C++ harness ---------------

_inc_sha_cache = {}


def includes_sha():
    k = REPO
    if k not in _inc_sha_cache:
        _inc_sha_cache[k] = tree_sha([os.path.join(REPO, "include"), os.path.join(ROOT, "harness", "common")])
    return _inc_sha_cache[k]


def compile_tu(src, flags, variant):
    key = sha(" ".join(flags), file_sha(src), includes_sha(), src if src.startswith(ROOT) else os.path.relpath(src, REPO))
    objdir = os.path.join(BUILD, "obj", variant)
    os.makedirs(objdir, exist_ok=True)
    obj = os.path.join(objdir, key + ".o")
    if os.path.exists(obj):
        return obj, ""
    tmp = obj + ".tmp%d.%d" % (os.getpid(), threading.get_ident())
    p = subprocess.run(["timeout", "900", CXX] + flags + ["-c", src, "-o", tmp], stdout=subprocess.PIPE, stderr=subprocess.STDOUT, text=True)
    if p.returncode != 0:
        return None, "compile failed: %s\n%s" % (src, p.stdout[-6000:])
    os.replace(tmp, obj)
    return obj, ""


def harness_build(pid, prop, variant="plain"):
    flags = list(CXXFLAGS) + list(getattr(prop, "EXTRA_CXXFLAGS", []))
    if variant == "asan":
        flags += ASANFLAGS
    srcs = [os.path.join(REPO, s) for s in getattr(prop, "REPO_SRCS", [])]
    hs = sorted(glob.glob(os.path.join(ROOT, "harness", pid, "*.cpp")))
    missing = [s for s in srcs if not os.path.exists(s)]
    if missing:
        return False, None, "repo sources missing: " + " ".join(missing)
    with ThreadPoolExecutor(NCPU) as ex:
        results = list(ex.map(lambda s: compile_tu(s, flags, variant), srcs + hs))
    errs = [e for (o, e) in results if o is None]
    if errs:
        return False, None, "\n".join(errs)
    objs = [o for (o, _) in results]
    link = list(getattr(prop, "EXTRA_LINK", []))
    key = sha(variant, *objs, *link)
    outdir = os.path.join(BUILD, "h", pid)
    os.makedirs(outdir, exist_ok=True)
    exe = os.path.join(outdir, "h_%s_%s" % (variant, key))
    if not os.path.exists(exe):
        # keep other executables (a concurrent check against another tree may be using them); drop stale ones
        for old in glob.glob(os.path.join(outdir, "h_%s_*" % variant)):
            try:
                if time.time() - os.path.getmtime(old) > 6 * 3600: os.remove(old)
            except OSError: pass
        tmp = exe + ".tmp%d" % os.getpid()
        cmd = [CXX] + (ASANFLAGS if variant == "asan" else []) + objs + link + ["-o", tmp]
        p = subprocess.run(cmd, stdout=subprocess.PIPE, stderr=subprocess.STDOUT, text=True)
        if p.returncode != 0:
            return False, None, "link failed:\n" + p.stdout[-6000:]
        os.replace(tmp, exe)
    return True, exe, ""


def run_harness(exe, cases_path, out_path, ncases, timeout_per_case=20, env_extra=None):
    """Runs the harness; a crash or hang is attributed to the case that had started ('S id')
       and the harness is restarted after it.  Returns list of (id, kind, detail) for crashes."""
    crashes = []
    skip = 0
    if os.path.exists(out_path):
        os.remove(out_path)
    env = dict(os.environ)
    env["ASAN_OPTIONS"] = "detect_leaks=0:abort_on_error=0:exitcode=87"
    env["UBSAN_OPTIONS"] = "print_stacktrace=1:halt_on_error=1:exitcode=88"
    if env_extra:
        env.update(env_extra)
    guard = 0
    while skip < ncases and guard < 200:
        guard += 1
        # watchdog: the harness appends "S id" when a case starts and "R id ..." when it ends (flushed); a case that
        # makes no progress for 5 x timeout_per_case (at least 120) seconds is a hang of THAT case (the whole run keeps its global budget)
        errf = tempfile.TemporaryFile()
        pr = subprocess.Popen([exe, cases_path, out_path, str(skip)], stdout=subprocess.DEVNULL, stderr=errf, env=env)
        t0 = time.time(); last_size = -1; last_change = t0
        budget = max(60, timeout_per_case * (ncases - skip))
        rc = None
        while True:
            try:
                rc = pr.wait(timeout=0.5)
                break
            except subprocess.TimeoutExpired:
                pass
            try:
                sz = os.path.getsize(out_path)
            except OSError:
                sz = 0
            now = time.time()
            if sz != last_size:
                last_size = sz; last_change = now
            if now - last_change > max(5 * timeout_per_case, 120) or now - t0 > budget:
                pr.kill(); pr.wait(); rc = -999
                break
        errf.seek(0); err = errf.read().decode(errors="replace") if rc != -999 else "timeout"
        errf.close()
        lines = open(out_path).read().split("\n") if os.path.exists(out_path) else []
        started = [l.split()[1] for l in lines if l.startswith("S ")]
        done = [l.split()[1] for l in lines if l.startswith("R ")]
        if rc == 0:
            break
        # crash: the last started case without an R line
        if started and (not done or started[-1] != done[-1]):
            cid = started[-1]
            kind = "TIMEOUT" if rc == -999 else ("SANITIZER" if rc in (87, 88) or "Sanitizer" in err or "runtime error:" in err else "CRASH")
            sig = ""
            if rc < 0 and rc != -999:
                try: sig = signal.Signals(-rc).name
                except Exception: sig = str(rc)
            summary = ""
            m = re.search(r"(SUMMARY: .*|runtime error: .*)", err)
            if m: summary = m.group(1)[:300]
            crashes.append((int(cid), kind, (sig + " " + summary).strip()))
            with open(out_path, "a") as f:
                f.write("R %s %s %s\n" % (cid, kind, sig or "-"))
            skip = len(started)
        else:
            crashes.append((-1, "HARNESS_FAILURE", "rc=%s %s" % (rc, err[-500:])))
            break
    return crashes


# ------------------------------------------------------------------ known findings ------------

def load_known(pid):
    ents = []
    paths = [os.path.join(ROOT, "known_findings.json")] + sorted(glob.glob(os.path.join(ROOT, "known_findings.d", "*.json")))
    for p in paths:
        if os.path.exists(p):
            try:
                d = json.load(open(p))
            except Exception as e:
                log("cannot parse", p, e); continue
            for e in d.get("findings", []):
                if e.get("property") == pid:
                    ents.append(e)
    return ents


def match_known(known, clause, site, case_line):
    for e in known:
        if e.get("status") != "known":
            continue
        if e.get("clause") != clause or e.get("site") != site:
            continue
        inp = e.get("input")
        if inp is None:
            return e
        if isinstance(inp, str) and " ".join(case_line.split()) == " ".join(inp.split()):
            return e
        if isinstance(inp, dict) and "case_regex" in inp and re.search(inp["case_regex"], case_line):
            return e
    return None


# ------------------------------------------------------------------ the check -----------------

def write_cases(path, cases, start=0):
    with open(path, "w") as f:
        for i, c in enumerate(cases):
            f.write("C %d %s\n" % (start + i, c))


def parse_verdicts(path_or_text):
    vs = {}
    for l in path_or_text.split("\n"):
        if not l.startswith("V "):
            continue
        t = l.split(" ", 6)
        cid = int(t[1]); kind = t[2]
        if kind == "OK":
            vs[cid] = ("OK", t[3] == "1", " ".join(t[4:]))
        else:
            clause = t[4] if len(t) > 4 else "?"
            site = t[5] if len(t) > 5 else "?"
            detail = t[6] if len(t) > 6 else ""
            vs[cid] = (kind, clause, site, detail)
    return vs


def run_batch(pid, prop, hexe, dexe, cases, workdir, tag, asan_exe=None):
    os.makedirs(workdir, exist_ok=True)
    cpath = os.path.join(workdir, tag + ".cases")
    ipath = os.path.join(workdir, tag + ".impl")
    write_cases(cpath, cases)
    crashes = run_harness(hexe, cpath, ipath, len(cases), timeout_per_case=getattr(prop, "CASE_TIMEOUT", 20))
    p = subprocess.run([dexe, cpath, ipath], stdout=subprocess.PIPE, stderr=subprocess.PIPE, text=True,
                       timeout=getattr(prop, "DRIVER_TIMEOUT", 3600))
    verdicts = parse_verdicts(p.stdout)
    if p.returncode != 0:
        verdicts[-1] = ("DISAGREE", "driver_crashed", "driver", p.stderr[-400:].replace("\n", " "))
    san = []
    if asan_exe:
        apath = os.path.join(workdir, tag + ".asan")
        sub = cases
        san = run_harness(asan_exe, cpath, apath, len(sub), timeout_per_case=getattr(prop, "CASE_TIMEOUT", 20) * 5)
    return verdicts, crashes, san


def check(pid, tier="quick", seed=None, replay=None):
    t0 = time.time()
    prop = load_prop(pid)
    if seed is None:
        seed = int(os.environ.get("VERIF_SEED", "1"))
    evid = dict(property_id=pid, tier=tier, seed=seed, level="proof", coverage={}, assumptions=[], wall_s=0.0, violations=0)
    out_lines = []
    violations = []      # (replay_path, suffix)
    known = load_known(pid)
    rdir = os.path.join(ROOT, "replay", pid)
    os.makedirs(rdir, exist_ok=True)
    workdir = os.path.join(BUILD, "run", pid, "%s_%d_%d" % (tier, seed, os.getpid()))
    os.makedirs(workdir, exist_ok=True)

    def emit(l):
        print(l, flush=True); out_lines.append(l)

    def violation(name, content, nofail=False):
        path = os.path.join(rdir, name)
        with open(path, "w") as f:
            f.write(content)
        violations.append(path)
        emit("VIOLATION property=%s replay=%s%s" % (pid, path, " no-failing-input-found" if nofail else ""))

    # ---------------- P
    cq = coq_build(pid, prop)
    allow = set(getattr(prop, "AXIOM_ALLOW", []))
    proof_problems = []
    if cq["forbidden"]:
        proof_problems.append("forbidden constructs: " + "; ".join(cq["forbidden"]))
    if not cq["ok"]:
        proof_problems.append("Coq build failed at %s\n%s" % (cq.get("failed_file"), cq["log"][-3000:]))
    else:
        if cq["assumptions"] is None:
            proof_problems.append("could not pair Print Assumptions output with theorems")
        else:
            for thm, axs in cq["assumptions"].items():
                for a in axs:
                    if a not in allow:
                        proof_problems.append("theorem %s depends on axiom %s not in the allow-list" % (thm, a))
        if cq.get("unprinted"):
            proof_problems.append("theorems without Print Assumptions: " + ", ".join(cq["unprinted"]))
    chk_out = None
    if tier == "thorough" and cq["ok"] and os.environ.get("VERIF_NO_COQCHK") != "1":
        okc, chk_out = coqchk(pid)
        if not okc:
            proof_problems.append("coqchk failed:\n" + chk_out[-2000:])

    # ---------------- builds
    okm, dexe, merr = ml_build(pid, prop) if cq["ok"] or os.path.exists(os.path.join(TH, pid, "Model.vo")) else (False, None, "model .vo not built")
    okh, hexe, herr = harness_build(pid, prop, "plain")
    aexe = None
    if tier == "thorough" or getattr(prop, "ASAN_QUICK", False):
        oka, aexe, aerr = harness_build(pid, prop, "asan")
        if not oka:
            aexe = None
            if okh:
                herr = "ASan variant: " + aerr; okh = False
    if not okh:
        violation("harness_build.txt", "correspondence C_%s: the C++ harness no longer builds against /repo's tree\n%s\n" % (pid, herr), nofail=True)
    if not okm:
        violation("model_build.txt", "extracted model / driver does not build\n%s\n" % merr, nofail=True)

    stats = dict(evaluations=0, nontrivial=set(), tags={}, disagreements=[], oracle=[], known=[], crashes=[], sanit=[])

    def process(cases, tag, use_asan):
        verdicts, crashes, san = run_batch(pid, prop, hexe, dexe, cases, workdir, tag, aexe if use_asan else None)
        for cid, v in sorted(verdicts.items()):
            case = cases[cid] if 0 <= cid < len(cases) else "?"
            stats["evaluations"] += 1
            if v[0] == "OK":
                if v[1]:
                    stats["nontrivial"].add(hashlib.md5(case.encode()).hexdigest())
                t = v[2].split()[0] if v[2] else "-"
                stats["tags"][t] = stats["tags"].get(t, 0) + 1
            else:
                kind, clause, site, detail = v
                k = match_known(known, clause, site, case)
                rec = dict(case=case, kind=kind, clause=clause, site=site, detail=detail, tag=tag, cid=cid)
                if k is not None:
                    stats["known"].append((k, rec))
                elif kind == "ORACLE":
                    stats["oracle"].append(rec)
                else:
                    stats["disagreements"].append(rec)
        for (cid, kind, detail) in san:
            case = cases[cid] if 0 <= cid < len(cases) else "?"
            site = case.split()[0] if case != "?" else "harness"
            k = match_known(known, "no_UB", site, case)
            rec = dict(case=case, kind=kind, clause="no_UB", site=site, detail=detail, tag=tag + ".asan", cid=cid)
            if k is not None:
                stats["known"].append((k, rec))
            else:
                stats["sanit"].append(rec)

    samples = []
    if okh and okm:
        if replay:
            cases = [l.split(" ", 2)[2] if l.startswith("C ") else l for l in open(replay).read().split("\n")
                     if l.strip() and not l.startswith("#")]
            process(cases, "replay", aexe is not None)
        else:
            corpus = []
            for f in sorted(glob.glob(os.path.join(ROOT, "corpus", pid, "*.case"))):
                corpus += [l.strip() for l in open(f) if l.strip() and not l.startswith("#")]
            if corpus:
                process(corpus, "corpus", aexe is not None)
            seeds = [seed] if tier == "quick" else [seed + 1000 * k for k in range(getattr(prop, "THOROUGH_SEEDS", 3))]
            for sd in seeds:
                rng = random.Random(sd)
                cases = list(prop.gen(rng, tier))
                if not samples:
                    samples = cases[:3] + cases[len(cases) // 2: len(cases) // 2 + 2]
                process(cases, "gen%d" % sd, aexe is not None)
            # failing-input search when the correspondence broke without an oracle failure
            if (stats["disagreements"] or proof_problems) and not stats["oracle"] and hasattr(prop, "gen"):
                budget = getattr(prop, "SEARCH_SEEDS", 3)
                for k in range(budget):
                    rng = random.Random(seed * 7919 + 17 + k)
                    cases = list(prop.gen(rng, "search"))
                    process(cases, "search%d" % k, False)
                    if stats["oracle"]:
                        break

    # ---------------- property-specific extra phases (e.g. C10: other properties' cases under ASan,
    # compile probes).  extra_checks(api) returns records {kind: ORACLE|DISAGREE|SANITIZER, clause, site,
    # detail, case} and may bump api["evaluations"].
    if hasattr(prop, "extra_checks") and not replay:
        api = dict(tier=tier, seed=seed, workdir=workdir, harness_build=harness_build, run_harness=run_harness,
                   load_prop=load_prop, claimed_props=claimed_props, write_cases=write_cases, compile_tu=compile_tu,
                   CXXFLAGS=CXXFLAGS, ASANFLAGS=ASANFLAGS, CXX=CXX, REPO=REPO, ROOT=ROOT, BUILD=BUILD, NCPU=NCPU,
                   evaluations=0, nontrivial=0, tags={})
        try:
            recs = prop.extra_checks(api) or []
        except Exception as ex:
            recs = [dict(kind="DISAGREE", clause="extra_checks_failed", site="props/%s.py" % pid, detail=repr(ex)[:300], case="-")]
        stats["evaluations"] += api["evaluations"]
        for i in range(api["nontrivial"]):
            stats["nontrivial"].add("extra-%d" % i)
        for t, n in api["tags"].items():
            stats["tags"][t] = stats["tags"].get(t, 0) + n
        for r in recs:
            rec = dict(case=r.get("case", "-"), kind=r["kind"], clause=r["clause"], site=r["site"], detail=r.get("detail", ""), tag="extra", cid=-1)
            k = match_known(known, rec["clause"], rec["site"], rec["case"])
            if k is not None:
                stats["known"].append((k, rec))
            elif rec["kind"] == "ORACLE":
                stats["oracle"].append(rec)
            elif rec["kind"] == "SANITIZER":
                stats["sanit"].append(rec)
            else:
                stats["disagreements"].append(rec)

    # ---------------- verdicts
    seen = set()
    for (k, rec) in stats["known"]:
        key = (k.get("clause"), k.get("site"), json.dumps(k.get("input"), sort_keys=True))
        if key in seen:
            continue
        seen.add(key)
        emit("KNOWN-FINDING: property=%s %s [clause=%s site=%s]" % (pid, k.get("what", ""), k.get("clause"), k.get("site")))

    def group(recs):
        g = {}
        for r in recs:
            g.setdefault((r["clause"], r["site"]), []).append(r)
        return g

    for (clause, site), recs in group(stats["oracle"]).items():
        r = min(recs, key=lambda r: len(r["case"]))
        violation("oracle_%s_%s.case" % (re.sub(r"\W", "_", clause), re.sub(r"\W", "_", site)),
                  "# property %s: implementation output violates clause %s at %s\n# %s\n# %d failing case(s) in this run; smallest:\nC 0 %s\n"
                  % (pid, clause, site, r["detail"], len(recs), r["case"]))
    for (clause, site), recs in group(stats["sanit"]).items():
        r = min(recs, key=lambda r: len(r["case"]))
        violation("sanitizer_%s.case" % re.sub(r"\W", "_", site),
                  "# property %s: sanitizer/abnormal termination (%s) on an input the model accepts\n# %s\nC 0 %s\n" % (pid, r["kind"], r["detail"], r["case"]))
    have_failing = bool(stats["oracle"] or stats["sanit"])
    for (clause, site), recs in group(stats["disagreements"]).items():
        r = min(recs, key=lambda r: len(r["case"]))
        violation("corr_%s_%s.case" % (re.sub(r"\W", "_", clause), re.sub(r"\W", "_", site)),
                  "# property %s: correspondence %s at %s no longer checks (model and implementation differ)\n# %s\n# %d disagreeing case(s); smallest:\nC 0 %s\n"
                  % (pid, clause, site, r["detail"], len(recs), r["case"]), nofail=not have_failing)
    if proof_problems:
        violation("proof.txt", "# property %s: proof obligations no longer check\n%s\n" % (pid, "\n".join(proof_problems)), nofail=not have_failing)

    # ---------------- evidence
    cov = evid["coverage"]
    cov["obligations"] = max(1, cq["obligations"])
    cov["discharged"] = cq["discharged"] if not proof_problems else min(cq["discharged"], max(0, cq["obligations"] - 1))
    cov["checker_cmd"] = "make -C coq theories/Properties_%s.vo (coqc 8.16.1, full .vo build)%s" % (pid, " && coqchk -o -silent AIT.Properties_%s" % pid if chk_out is not None else "")
    cov["trusted_base"] = ["Coq 8.16.1 kernel (coqc, vm_compute; no native_compute)",
                           "extraction with ExtrOcamlBasic only + OCaml 4.13.1 ocamlopt",
                           "hand-written glue: ml/common/vio.ml, ml/%s/driver.ml, harness/%s/*.cpp, props/%s.py, lib/vcheck.py" % (pid, pid, pid),
                           "g++ 12 -O1 (and ASan/UBSan in thorough tier) runs the C++ as written"] + list(getattr(prop, "TRUSTED_BASE", []))
    cov["property_theorems"] = cq["theorems"]
    cov["axioms"] = cq["assumptions"]
    cov["evaluations"] = stats["evaluations"]
    cov["distinct_nontrivial"] = len(stats["nontrivial"])
    cov["rule"] = getattr(prop, "RULE", "cases from props/%s.py gen(); non-trivial = the driver reports the model took a non-default branch; distinct by md5 of the case line" % pid)
    cov["samples"] = samples[:6] if samples else ["(no generated cases)"]
    cov["input_histogram"] = stats["tags"]
    cov["known_findings_hit"] = len(seen)
    cov["disagreements"] = len(stats["disagreements"]); cov["oracle_failures"] = len(stats["oracle"])
    cov["sanitizer_reports"] = len(stats["sanit"])
    cov["asan_variant"] = aexe is not None
    cov["coq_wall_s"] = cq.get("coq_wall_s")
    if chk_out is not None:
        cov["coqchk_tail"] = chk_out[-1500:]
    evid["assumptions"] = list(getattr(prop, "ASSUMPTIONS", []))
    evid["violations"] = len(violations)
    evid["wall_s"] = round(time.time() - t0, 2)
    os.makedirs(os.path.join(ROOT, "evidence"), exist_ok=True)
    if not replay:
        with open(os.path.join(ROOT, "evidence", pid + ".json"), "w") as f:
            json.dump(evid, f, indent=1, sort_keys=True)
    shutil.rmtree(workdir, ignore_errors=True)
    log("[%s %s seed=%d] evaluations=%d nontrivial=%d known=%d violations=%d wall=%.1fs" %
        (pid, tier, seed, stats["evaluations"], len(stats["nontrivial"]), len(seen), len(violations), time.time() - t0))
    return 1 if violations else 0


def claimed_props():
    try:
        man = json.load(open(os.path.join(ROOT, "MANIFEST.json")))
        return [c["property_id"] for c in man.get("checks", [])]
    except Exception:
        return all_props()


def setup():
    """MANIFEST.setup_cmd: build everything the claimed checks need from files on disk (offline).
       Unclaimed (in-progress) properties are built best-effort and never fail the setup."""
    claimed = claimed_props()
    with Lock("coq"):
        gen_coqproject()
        targets = ["theories/Properties_%s.vo" % p for p in claimed]
        for d in ["Base"] + claimed:     # also the files only the extraction imports (Base/Vio.v, <ID>/Spec.v …)
            targets += [os.path.relpath(f, COQ)[:-2] + ".vo" for f in sorted(glob.glob(os.path.join(TH, d, "*.v"))) if os.path.basename(f) != "Extract.v"]
        p = subprocess.run(["timeout", "3000", "make", "-k", "-j%d" % NCPU] + targets, cwd=COQ)
    rc = p.returncode
    for pid in claimed:
        prop = load_prop(pid)
        okm, _, e1 = ml_build(pid, prop)
        okh, _, e2 = harness_build(pid, prop, "plain")
        if not okm: log(pid, e1); rc = rc or 1
        if not okh: log(pid, e2); rc = rc or 1
        # warm the sanitizer variants the quick tier uses (own ASAN_QUICK, and C10's sweep over every property)
        if getattr(prop, "ASAN_QUICK", False) or "C10" in claimed:
            oka, _, e3 = harness_build(pid, prop, "asan")
            if not oka: log(pid, "asan variant:", e3[-400:])
    for pid in claimed:
        prop = load_prop(pid)
        if hasattr(prop, "setup_extra"):
            try:
                prop.setup_extra(dict(tier="quick", seed=1, compile_tu=compile_tu, CXXFLAGS=CXXFLAGS, REPO=REPO, ROOT=ROOT,
                                      BUILD=BUILD, NCPU=NCPU, evaluations=0, nontrivial=0, tags={}))
            except Exception as ex:
                log(pid, "setup_extra failed:", repr(ex)[:300])
    return rc
