#!/opt/veriftools/pyvenv/bin/python
import json, jsonschema, glob, sys
ok = True
try:
    jsonschema.validate(json.load(open('/verif/MANIFEST.json')), json.load(open('/root/.vp/MANIFEST.schema.json')))
except Exception as e:
    ok = False; print("MANIFEST:", e)
es = json.load(open('/root/.vp/EVIDENCE.schema.json'))
for f in sorted(glob.glob('/verif/evidence/*.json')):
    try: jsonschema.validate(json.load(open(f)), es)
    except Exception as e:
        ok = False; print(f, str(e)[:400])
print("valid" if ok else "INVALID"); sys.exit(0 if ok else 1)
